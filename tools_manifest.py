#!/venv/bin/python
"""Regenerates MANIFEST.json from the table below (kept in one place so it is always schema-valid)."""
import json
import os

HERE = os.path.dirname(os.path.abspath(__file__))

CLAIMED = {
    # id: (design_ref, level text, level note, technique)
}
NOT_APPLICABLE = {
    "C02": "pure function of (ballot multiset, contest definition): no seed, draw order, call history, fault or stream order for a simulator to act on (DESIGN 5)",
    "C04": "deterministic in-memory search over one ballot profile; no state survives a call, its seed argument is unused (DESIGN 5)",
    "C11": "well-formedness of the value returned for one (sample, parameters) pair: pure function, nothing depends on how the sample came about (DESIGN 5)",
    "C12": "algebraic identities between pure functions (published formulas; ALPHA == betting) (DESIGN 5)",
    "C13": "ranges of pure functions of (sample prefix, parameters); violations that also break the risk limit surface under C01 (DESIGN 5)",
    "C14": "two pure ballot-interpretation functions agree on every ballot: differential testing of inputs, not simulation (DESIGN 5)",
    "C15": "optimality is a minimum over assertion sets of one profile; no schedule, history or fault dimension (DESIGN 5)",
    "C20": "pure recursion over (candidates, assertion tuples) (DESIGN 5)",
}


def build():
    from manifest_table import CHECKS  # noqa
    checks = []
    for pid, c in sorted(CHECKS.items()):
        checks.append({
            "property_id": pid,
            "quick_cmd": f"timeout 1500 ./check.py {pid} --tier quick",
            "thorough_cmd": f"timeout 3400 ./check.py {pid} --tier thorough",
            "evidence_file": f"/verif/evidence/{pid}.json",
            "replay_cmd_template": f"./check.py {pid} --replay {{path}}",
            "engine": c["engine"],
            "level_claimed": {"category": "exploration", "text": c["text"], "design_ref": c["ref"]},
            "level_note": c["note"],
            "technique": c["technique"],
        })
    na = [{"property_id": k, "reason": v} for k, v in sorted(NOT_APPLICABLE.items())]
    from manifest_table import NA_EXTRA
    na.extend({"property_id": k, "reason": v} for k, v in sorted(NA_EXTRA.items()) if k not in CHECKS)
    m = {
        "version": 1,
        "setup_cmd": "/venv/bin/python setup_check.py",
        "hooks": {
            "guard": "SHANGRLA_VERIF",
            "enable": "no hook exists: every seam the simulator needs (prng argument, cvr.sample_num, seed= keywords, "
                      "DataFrame and path arguments) is already a parameter of the public API; checks import /repo's "
                      "working tree directly (VERIF_REPO overrides the path)",
            "baseline_off_cmd": "cd /repo && /venv/bin/python -m pytest -ra -q -p no:cacheprovider --timeout=900 "
                                "--continue-on-collection-errors",
            "source_commits": [],
            "add_only": True,
        },
        "engines": [
            {"name": "AuditWorld", "path": "/verif/auditsim", "serves_properties": sorted(
                k for k, c in CHECKS.items() if c["engine"] == "AuditWorld"),
             "kind_free_text": "deterministic whole-audit simulator (election, voting system, auditors as seeded stubs; real "
                               "SHANGRLA as audit software) with fault injection, invariant/history oracles, shrinking and replay"},
            {"name": "DrawSim", "path": "/verif/auditsim/drawsim.py", "serves_properties": sorted(
                k for k, c in CHECKS.items() if c["engine"] == "DrawSim"),
             "kind_free_text": "urn simulator: the schedule is the draw order; exhaustive orderings of small null populations, "
                               "seeded orderings of larger ones, forked futures"},
        ],
        "checks": checks,
        "not_applicable": na,
        "notes": "Technique: deterministic simulation with fault injection (DESIGN.md). One integer VERIF_SEED decides every "
                 "run; exit 0 held / 1 violation (VIOLATION line + replay file, reproduced in a fresh interpreter first) / "
                 "2 harness problem. Known findings: /verif/known_findings.json.",
    }
    with open(os.path.join(HERE, "MANIFEST.json"), "w") as f:
        json.dump(m, f, indent=1)
    return m


if __name__ == "__main__":
    import sys
    sys.path.insert(0, HERE)
    m = build()
    import subprocess
    subprocess.run(["python3-vt", "-c", "import json,jsonschema;jsonschema.validate(json.load(open('/verif/MANIFEST.json')),"
                    "json.load(open('/root/.vp/MANIFEST.schema.json')));print('schema ok')"], check=True)
    print("MANIFEST.json written:", [c["property_id"] for c in m["checks"]], "N/A:", [n["property_id"] for n in m["not_applicable"]])
