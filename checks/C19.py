"""C19 - Dominion import reflects counted marks, adjudication and grouping faithfully (weak fit).

Channel simulation: the voting system's in-memory record is serialised to Dominion JSON in both
export layouts under re-serialisation faults (key order, mark order, duplicate marks, 'Modified'
before 'Original', sessions split over files, obfuscated record ids) and read back with the real
importer under every option setting.  Reference importer written from the statement."""
import copy
import json
import os
import tempfile

import numpy as np

from auditsim import repo as R
from auditsim import world as W
from auditsim.log import Outcome

PROP = "C19"
TIERS = {
    "quick": {"runs": 12000, "chunk": 300, "max_sessions": 6},
    "thorough": {"budget_s": 600, "chunk": 300, "max_sessions": 30},
}
RULE = ("one run = one export: 1-n sessions (cards per session, contests per card, any multiset and order of marks, optional "
        "adjudicated data), one serialisation (layout, key order, file split, obfuscated ids) and one option setting; "
        "non-trivial = a duplicate mark, an uncounted mark, adjudicated data or an excluded group is present; distinct = "
        "distinct event-log digest")
ASSUMPTIONS = [
    "ranks are non-negative integers; when no counted mark of a candidate has a positive rank only the falsiness of the recorded value is compared",
    "a contest appears at most once per session and data version (Original / Modified)",
    "directory import reads CvrExport_*.json in lexicographic file-name order (fewer than ten files are written)",
]
COMPONENTS = {
    "real": ["Dominion.read_cvrs", "Dominion.read_cvrs_directory"],
    "stub": ["voting system record", "exporter / re-serialiser", "file system (per-run scratch directory)"],
}
PROBES = ["Modified before Original", "duplicate mark with lower rank later", "duplicate mark with lower rank first",
          "uncounted mark", "adjudication drops a contest's marks", "group excluded", "pooled group", "obfuscated record id",
          "sessions split over files", "old layout", "new layout", "rank zero mark", "counted mark flagged ambiguous",
          "two batches whose labels' digits run together alike", "export replaced at the same path after an earlier import"]


def gen_contest(rng, cid):
    ncand = rng.randint(1, 4)
    cands = rng.sample(range(1, 60), ncand)
    marks = []
    for _ in range(rng.randint(0, 6)):
        marks.append({"CandidateId": rng.pick(cands), "Rank": rng.pick([1, 1, 1, 2, 3, 4, 0]), "IsVote": rng.chance(0.75),
                      "IsAmbiguous": rng.chance(0.15), "MarkDensity": rng.randint(0, 100)})
    return {"Id": cid, "Marks": marks}


def generate(rng, tier):
    cfg = TIERS[tier]
    ns_ = rng.randint(1, rng.pick([2, cfg["max_sessions"]]))
    layout = rng.pick(["old", "new"])
    sessions = []
    contest_ids = rng.sample(range(300, 360), rng.randint(1, 5))
    digits = rng.chance(0.4)  # labels whose digits run together: tabulator 1 batch 12, tabulator 11 batch 2 ...
    for k in range(ns_):
        cids = rng.sample(contest_ids, rng.randint(0, len(contest_ids)))
        orig = [gen_contest(rng, c) for c in cids]
        mod = None
        if rng.chance(0.35):
            mcids = rng.sample(cids, rng.randint(0, len(cids))) if cids else []
            if rng.chance(0.2):
                mcids = mcids + [c for c in contest_ids if c not in cids][:1]
            mod = [gen_contest(rng, c) for c in mcids]
        sessions.append({"TabulatorId": rng.pick([1, 11, 2, 21, 12, 111]) if digits else rng.pick([rng.randint(1, 20), rng.randint(1, 20), 100203, 1234567]),
                         "BatchId": rng.pick([1, 2, 12, 11, 21, 112]) if digits else rng.randint(1, 9), "RecordId": 1000 + k,
                         "obfuscated": rng.chance(0.2), "CountingGroupId": rng.pick([1, 2, 2, 3, 0]),
                         "Original": orig, "Modified": mod, "modified_first": rng.chance(0.5),
                         "cards_split": rng.randint(1, 3), "key_shuffle": rng.getrandbits(16),
                         "iscurrent": rng.pick(["realistic", "realistic", "all-true"])})
    if len(sessions) >= 2 and rng.chance(0.15):
        # the same card listed twice (a re-scan exported again): one record per session all the same
        a, b = rng.sample(range(len(sessions)), 2)
        for key in ("TabulatorId", "BatchId", "RecordId"):
            sessions[b][key] = sessions[a][key]
    slash_masks = rng.chance(0.2)
    for s_ in sessions:
        s_["mask_sep"] = "/" if slash_masks else "\\"
    opts = {"use_current": rng.chance(0.6), "enforce_rules": rng.chance(0.6),
            "include_groups": rng.pick([[], [], [2], [1, 2], [3], [0, 2], [1]]), "pool_groups": rng.pick([[], [1], [2], [1, 3], [0]])}
    nfiles = rng.pick([0, 0, 1, 2, 3])  # 0 = single file via read_cvrs
    return {"layout": layout, "sessions": sessions, "opts": opts, "nfiles": nfiles, "rewritten": rng.chance(0.3)}


# --------------------------------------------------------------------------- exporter
def serialise_session(s, layout):
    import random
    rnd = random.Random(s["key_shuffle"])

    def version(contests, current=True):
        cons = copy.deepcopy(contests)
        for c in cons:
            keys = list(c["Marks"][0].keys()) if c["Marks"] else []
            c["Marks"] = [{k: m[k] for k in rnd.sample(keys, len(keys))} for m in c["Marks"]]
        if layout == "old":
            return {"Contests": cons, "IsCurrent": current}
        # new layout: contests spread over cards
        n = max(1, min(s["cards_split"], max(1, len(cons))))
        cards = [{"Id": i + 1, "Contests": []} for i in range(n)]
        for i, c in enumerate(cons):
            cards[i % n]["Contests"].append(c)
        return {"Cards": cards, "IsCurrent": current}

    body = []
    # real exports mark the original data as not current once adjudicated data exist
    o = ("Original", version(s["Original"], current=not (s.get("iscurrent") == "realistic" and s["Modified"] is not None)))
    m = ("Modified", version(s["Modified"])) if s["Modified"] is not None else None
    if m is not None and s["modified_first"]:
        body = [m, o]
    else:
        body = [o] + ([m] if m is not None else [])
    head = [("TabulatorId", s["TabulatorId"]), ("BatchId", s["BatchId"]),
            ("RecordId", "X" if s["obfuscated"] else s["RecordId"]), ("CountingGroupId", s["CountingGroupId"]),
            ("ImageMask", s.get("mask_sep", "\\").join(["D:", "NAS", "Images", f"{s['TabulatorId']:05d}_{s['BatchId']:05d}_{s['RecordId']:06d}*.*"])),
            ("SessionType", "ScannedVote")]
    items = head + body
    # key order of the session object: shuffled, but the relative order Original/Modified is what the fault plan says
    others = [it for it in items if it[0] not in ("Original", "Modified")]
    rnd.shuffle(others)
    pos = rnd.randint(0, len(others))
    items = others[:pos] + body + others[pos:]
    return dict(items)


# --------------------------------------------------------------------------- reference importer
def ref_import(case):
    o = case["opts"]
    out = []
    for s in case["sessions"]:
        if o["include_groups"] and s["CountingGroupId"] not in o["include_groups"]:
            continue
        votes = {}
        versions = [s["Original"]]
        if o["use_current"] and s["Modified"] is not None:
            versions.append(s["Modified"])
        for contests in versions:  # adjudicated data replace original data for the contests they cover
            for c in contests:
                cv = {}
                for m in c["Marks"]:
                    if m["IsVote"] or not o["enforce_rules"]:
                        cv.setdefault(str(m["CandidateId"]), []).append(m["Rank"])
                votes[str(c["Id"])] = cv
        out.append({"id": f"{s['TabulatorId']}-{s['BatchId']}-{s['RecordId']}", "tally_pool": f"{s['TabulatorId']}-{s['BatchId']}",
                    "pool": s["CountingGroupId"] in o["pool_groups"], "votes": votes})
    return out


def execute(case):
    ns = R.load()
    out = Outcome()
    o = case["opts"]
    layout = case["layout"]
    out.probe("old layout" if layout == "old" else "new layout")
    out.shape(f"{layout} files={case['nfiles']} cur={o['use_current']} rules={o['enforce_rules']} inc={bool(o['include_groups'])}")
    for s in case["sessions"]:
        if s["Modified"] is not None:
            out.fault("adjudicated data present")
            if s["modified_first"]:
                out.probe("Modified before Original")
                out.fault("F12 'Modified' precedes 'Original'")
            oc = {c["Id"]: c for c in s["Original"]}
            if any(c["Id"] in oc and oc[c["Id"]]["Marks"] and not c["Marks"] for c in s["Modified"]):
                out.probe("adjudication drops a contest's marks")
        if s["obfuscated"]:
            out.probe("obfuscated record id")
        if o["include_groups"] and s["CountingGroupId"] not in o["include_groups"]:
            out.probe("group excluded")
            out.nontrivial = True
        if s["CountingGroupId"] in o["pool_groups"]:
            out.probe("pooled group")
        for c in s["Original"] + (s["Modified"] or []):
            seen = {}
            for m in c["Marks"]:
                if not m["IsVote"]:
                    out.probe("uncounted mark")
                    out.nontrivial = True
                if m["Rank"] == 0:
                    out.probe("rank zero mark")
                k = m["CandidateId"]
                if k in seen:
                    out.fault("duplicate mark")
                    if m["Rank"] and seen[k] and m["Rank"] < seen[k]:
                        out.probe("duplicate mark with lower rank later")
                    elif m["Rank"] and seen[k] and m["Rank"] > seen[k]:
                        out.probe("duplicate mark with lower rank first")
                seen.setdefault(k, m["Rank"])
    ref = ref_import(case)
    docs = [serialise_session(s, layout) for s in case["sessions"]]
    out.units["sessions"] += len(docs)
    if any(m.get("IsAmbiguous") and m["IsVote"] for s in case["sessions"] for c in s["Original"] + (s["Modified"] or []) for m in c["Marks"]):
        out.probe("counted mark flagged ambiguous")
    labels = {}
    for s in case["sessions"]:
        labels.setdefault(f"{s['TabulatorId']}{s['BatchId']}", set()).add((s["TabulatorId"], s["BatchId"]))
    if any(len(v) > 1 for v in labels.values()):
        out.probe("two batches whose labels' digits run together alike")
    # an earlier export that stood at the same path(s) and was imported before this one replaced it
    prior = None
    if case.get("rewritten"):
        prior = []
        for s in reversed(case["sessions"]):
            s2 = copy.deepcopy(s)
            s2["RecordId"] += 500
            s2["Modified"] = None
            for c in s2["Original"]:
                c["Marks"] = [dict(m, IsVote=not m["IsVote"], Rank=m["Rank"] + 1) for m in reversed(c["Marks"])]
            prior.append(serialise_session(s2, layout))
        prior.append(dict(prior[0], RecordId=7777))
        out.probe("export replaced at the same path after an earlier import")
        out.fault("F15 file replaced between two imports")
    try:
        with tempfile.TemporaryDirectory(prefix="c19_") as d:
            if case["nfiles"] == 0:
                p = os.path.join(d, "CvrExport.json")
                if prior is not None:
                    with open(p, "w") as f:
                        json.dump({"Version": "5.10.50.85", "ElectionId": "sim", "Sessions": prior}, f)
                    try:
                        with W.quiet():
                            ns.Dominion.read_cvrs(p, use_current=o["use_current"], enforce_rules=o["enforce_rules"],
                                                  include_groups=list(o["include_groups"]), pool_groups=list(o["pool_groups"]))
                    except Exception as e:
                        out.raised("read_cvrs(earlier export)", e)
                with open(p, "w") as f:
                    json.dump({"Version": "5.10.50.85", "ElectionId": "sim", "Sessions": docs}, f)
                with W.quiet():
                    got = ns.Dominion.read_cvrs(p, use_current=o["use_current"], enforce_rules=o["enforce_rules"],
                                                include_groups=list(o["include_groups"]), pool_groups=list(o["pool_groups"]))
            else:
                n = case["nfiles"]
                if n > 1:
                    out.probe("sessions split over files")
                    out.fault("F12 sessions split over files")
                per = -(-len(docs) // n)
                if prior is not None:
                    pper = -(-len(prior) // n)
                    for i in range(n):
                        with open(os.path.join(d, f"CvrExport_{i + 1}.json"), "w") as f:
                            json.dump({"Version": "5.10.50.85", "ElectionId": "sim", "Sessions": prior[i * pper:(i + 1) * pper]}, f)
                    with open(os.path.join(d, "ContestManifest.json"), "w") as f:
                        json.dump({"List": []}, f)
                    try:
                        with W.quiet():
                            ns.Dominion.read_cvrs_directory(d, use_current=o["use_current"], enforce_rules=o["enforce_rules"],
                                                            include_groups=list(o["include_groups"]), pool_groups=list(o["pool_groups"]))
                    except Exception as e:
                        out.raised("read_cvrs_directory(earlier export)", e)
                for i in range(n):
                    with open(os.path.join(d, f"CvrExport_{i + 1}.json"), "w") as f:
                        json.dump({"Version": "5.10.50.85", "ElectionId": "sim", "Sessions": docs[i * per:(i + 1) * per]}, f)
                with open(os.path.join(d, "ContestManifest.json"), "w") as f:
                    json.dump({"List": []}, f)
                with W.quiet():
                    got = ns.Dominion.read_cvrs_directory(d, use_current=o["use_current"], enforce_rules=o["enforce_rules"],
                                                          include_groups=list(o["include_groups"]), pool_groups=list(o["pool_groups"]))
    except Exception as e:
        out.raised("read_cvrs", e)
        out.violate("C19.a", f"raised-{type(e).__name__}", f"importing the export raised {e!r}")
        return out
    try:
        out.ev("import", [[c.id, c.tally_pool, bool(c.pool), {k: dict(v) for k, v in c.votes.items()}] for c in got])
    except Exception:
        out.ev("import", "unprintable")
    ids = [c.id for c in got]
    if ids != [r["id"] for r in ref]:
        out.violate("C19.a", "records", f"imported records {ids[:8]}, the included sessions in file order are {[r['id'] for r in ref][:8]}")
        return out
    for c, r in zip(got, ref):
        if c.tally_pool != r["tally_pool"]:
            out.violate("C19.b", "tally-pool", f"record {c.id}: tally pool {c.tally_pool!r}, expected {r['tally_pool']!r}")
        if not isinstance(c.pool, (bool, np.bool_)) or bool(c.pool) != r["pool"]:
            out.violate("C19.b", "pooled-flag", f"record {c.id}: pool={c.pool!r}, its counting group is "
                                                f"{'' if r['pool'] else 'not '}designated for pooling")
        if set(c.votes.keys()) != set(r["votes"].keys()):
            path = "adjudication" if any(s["Modified"] is not None for s in case["sessions"]) else "contests"
            out.violate("C19.e" if path == "adjudication" else "C19.a", f"{path}/contest-set",
                        f"record {c.id}: contests {sorted(c.votes)}, expected {sorted(r['votes'])}")
            continue
        for con, cv in r["votes"].items():
            gv = c.votes[con]
            sess = next(s for s in case["sessions"] if f"{s['TabulatorId']}-{s['BatchId']}-{s['RecordId']}" == c.id)
            adjud = sess["Modified"] is not None and any(str(x["Id"]) == con for x in sess["Modified"])
            if set(gv.keys()) != set(cv.keys()):
                clause = "C19.e" if adjud else "C19.d"
                out.violate(clause, f"{'adjudication' if adjud else 'marks'}/candidate-set/cur={o['use_current']}/rules={o['enforce_rules']}",
                            f"record {c.id} contest {con}: candidates {sorted(gv)}, expected {sorted(cv)} "
                            f"(enforce_rules={o['enforce_rules']}, use_current={o['use_current']}, adjudicated={adjud})")
                continue
            for cand, ranks in cv.items():
                pos = [x for x in ranks if x]
                val = gv[cand]
                if pos:
                    ok = (val == min(pos)) and bool(val)
                else:
                    ok = not bool(val)
                if not ok:
                    clause = "C19.e" if adjud else "C19.c"
                    out.violate(clause, f"{'adjudication' if adjud else 'marks'}/rank/cur={o['use_current']}",
                                f"record {c.id} contest {con} candidate {cand}: recorded {val!r}, counted marks have ranks {ranks} "
                                f"(adjudicated={adjud}, modified_first={sess['modified_first']})")
    return out


def reducers(case):
    n = len(case["sessions"])
    for i in reversed(range(n)):
        if n > 1:
            c = copy.deepcopy(case)
            del c["sessions"][i]
            yield c
    if case["nfiles"] != 0:
        c = copy.deepcopy(case)
        c["nfiles"] = 0
        yield c
    if case.get("rewritten"):
        c = copy.deepcopy(case)
        c["rewritten"] = False
        yield c
    for i, s in enumerate(case["sessions"]):
        for ver in ("Original", "Modified"):
            if s[ver]:
                for j in reversed(range(len(s[ver]))):
                    c = copy.deepcopy(case)
                    del c["sessions"][i][ver][j]
                    yield c
                for j, con in enumerate(s[ver]):
                    for k in reversed(range(len(con["Marks"]))):
                        c = copy.deepcopy(case)
                        del c["sessions"][i][ver][j]["Marks"][k]
                        yield c
        if s["Modified"] is not None and not s["Modified"]:
            c = copy.deepcopy(case)
            c["sessions"][i]["Modified"] = None
            yield c
        if s["obfuscated"]:
            c = copy.deepcopy(case)
            c["sessions"][i]["obfuscated"] = False
            yield c
        if s["cards_split"] > 1:
            c = copy.deepcopy(case)
            c["sessions"][i]["cards_split"] = 1
            yield c
    for k, v in (("include_groups", []), ("pool_groups", [])):
        if case["opts"][k]:
            c = copy.deepcopy(case)
            c["opts"][k] = v
            yield c
    if case["layout"] == "new":
        c = copy.deepcopy(case)
        c["layout"] = "old"
        yield c
