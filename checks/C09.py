"""C09 - the audit completes only when every assertion of every contest meets its risk limit.

AuditWorld state machine over one audit: rounds, dry runs followed by reset (as the worked
notebook does), resets between rounds, repeated status summaries, mis-configured contests.
Reference model: each assertion's own test run independently on that assertion's data."""
import copy
import math

import numpy as np

from auditsim import repo as R
from auditsim import world as W
from auditsim import gen as G
from auditsim.driver import AuditRun
from auditsim.log import Outcome, same, tight

PROP = "C09"
TIERS = {
    "quick": {"runs": 8000, "chunk": 100, "max_cards": 40},
    "thorough": {"budget_s": 900, "chunk": 100, "max_cards": 150},
}
RULE = ("one run = one seeded election with 1-4 contests (different risk limits, tests, social choice functions), a fault "
        "plan, and a sequence of operations on the shared audit state: rounds, dry run + reset, reset between rounds, "
        "status summaries, parameter checks of well-formed and mis-configured contests; non-trivial = at least one "
        "contest confirmed while another was not, or a reset / dry run happened after p-values moved; distinct = "
        "distinct event-log digest")
ASSUMPTIONS = [
    "reference p-values come from a test object built from the contest's specification alone (test, estimator/bet, their parameters, the contest's g, N, u) and run on that assertion's data",
    "when the reference raises for some assertion, set_p_values must raise too (any type; nothing further is judged in that run); p-values compared to 1e-12 relative",
    "a contest one of whose p-values is NaN is exempt from the 'largest p-value' comparison (NaN is C11's business); completion still requires every p-value <= its limit",
]
COMPONENTS = {
    "real": ["Assertion.set_p_values", "Audit.summarize_status", "Assertion.reset_p_values", "Audit.check_audit_parameters",
             "Assertion.mvrs_to_data", "NonnegMean tests", "sampler / lookup / ordering pipeline"],
    "stub": ["election", "voting system", "auditors", "manifest", "operation scheduler"],
}
PROBES = ["some contest confirmed while another is not", "audit complete", "dry run then reset", "reset between rounds",
          "assertion confirmed with p exactly at limit", "contests with different limits", "misconfiguration injected",
          "reference test raised", "contest with no assertions (uncontested)",
          "record in the sample replaced in place, p-values set again"]

MISCONFIG = ["risk-zero", "risk-negative", "risk-above-half", "risk-just-above-half", "winner-not-candidate", "winner-count", "too-many-winners",
             "irv-two-winners", "unknown-choice-function", "negative-error-rate"]


def _variants(rng, case):
    """margins revised between rounds; one contest of a comparison audit audited by polling"""
    w = case["world"]
    if case.get("margins_via_tally"):
        case["tally_rules"] = rng.chance(0.5)
        for r, rnd in enumerate(case["rounds"]):
            rnd["remargin"] = bool(r > 0 and rng.chance(0.35))
    elif w["audit_type"] == W.COMPARISON and len(w["contests"]) >= 2 and rng.chance(0.15):
        cid = rng.pick(sorted(w["contests"]))
        cs = w["contests"][cid]
        cs["audit_type"] = W.POLLING
        cs.update(W.gen_test(rng, W.POLLING))
        cs["cards"] = None
        case["mixed"] = True
    return case


def generate(rng, tier):
    cfg = TIERS[tier]
    case = G.gen_case(rng, max_cards=cfg["max_cards"], max_rounds=4)
    for i, rnd in enumerate(case["rounds"]):
        rnd["dry_run"] = bool(rng.chance(0.3))
        rnd["reset_after"] = bool(rng.chance(0.2))
        rnd["summaries"] = rng.randint(0, 2)
        rnd["correct_record"] = bool(rng.chance(0.3))
    tally_ok = (case["world"]["audit_type"] != W.POLLING and
                all(c["choice_function"] in (W.PLURALITY, W.APPROVAL) for c in case["world"]["contests"].values()))
    case["margins_via_tally"] = bool(tally_ok and rng.chance(0.5))
    _variants(rng, case)
    for cs in case["world"]["contests"].values():
        if cs["test"] == "KAPLAN_KOLMOGOROV" and rng.chance(0.4):
            cs["random_order"] = False
    case["misconfig"] = [{"kind": rng.pick(MISCONFIG), "contest": rng.pick(sorted(case["world"]["contests"]))}
                         for _ in range(rng.randint(0, 3))]
    return case


def clone_test(ns, t, u):
    f = ns.NonnegMean.__new__(ns.NonnegMean)
    f.__dict__.update(t.__dict__)
    f.test = t.test.__func__.__get__(f)
    f.estim = t.estim.__func__.__get__(f)
    f.bet = t.bet.__func__.__get__(f)
    f.u = u
    return f


class Model:
    def __init__(self, out):
        self.out = out
        self.prev_proved = {}
        self.ref = None
        self.ref_exc = None

    # ---------------------------------------------------------------- reference
    def reference(self, run, mvrs, cvrs):
        """what each assertion's own test returns on its own data (first exception type, in library order)"""
        ns = run.ns
        ref = {}
        exc = None
        for cid, con in run.contests.items():
            for key, asn in con.assertions.items():
                try:
                    with W.quiet():
                        d, u = asn.mvrs_to_data(mvrs, cvrs)
                        p, h = W.spec_test(ns, run.world["contests"][cid], asn, u).test(d)
                    ref[(cid, key)] = (float(p), [float(x) for x in h], u)
                except Exception as e:
                    if exc is None:
                        exc = type(e).__name__
                        self.out.probe("reference test raised")
                    ref[(cid, key)] = None
        return ref, exc

    def compare(self, run, ref, ret, where):
        out = self.out
        limits = {cid: run.world["contests"][cid]["risk_limit"] for cid in run.contests}
        pmaxes = []
        for cid, con in run.contests.items():
            ps = []
            for key, asn in con.assertions.items():
                r = ref[(cid, key)]
                p, h = float(asn.p_value), [float(x) for x in asn.p_history]
                ps.append(p)
                if r is None:
                    continue
                if not tight(p, r[0]) or len(h) != len(r[1]) or any(not tight(a, b) for a, b in zip(h, r[1])):
                    out.violate("C09.a", f"{where}/{run.world['contests'][cid]['test']}",
                                f"{cid}/{key}: recorded p={p!r} (history length {len(h)}), its own test on its own data gives "
                                f"p={r[0]!r} (history length {len(r[1])})")
                prev = self.prev_proved.get((cid, key), False)
                want = (p <= limits[cid]) or prev
                if bool(asn.proved) != bool(want):
                    out.violate("C09.b", "proved-flag", f"{cid}/{key}: p={p!r}, limit {limits[cid]}, previously confirmed={prev}, "
                                                        f"but proved={asn.proved}")
                if p == limits[cid]:
                    out.probe("assertion confirmed with p exactly at limit")
                self.prev_proved[(cid, key)] = bool(asn.proved)
                if con.p_values.get(key) is None or not same(con.p_values[key], p) or bool(con.proved.get(key)) != bool(asn.proved):
                    out.violate("C09.b", "contest-dicts", f"{cid}: p_values/proved dictionaries disagree with assertion {key}")
            if not ps:
                self.out.probe("contest with no assertions (uncontested)")
                continue  # nothing to assert: no largest p-value is defined; completion treats it as vacuously met
            if not any(math.isnan(p) for p in ps):
                if not same(con.max_p, max(ps)):
                    out.violate("C09.b", "contest-max", f"{cid}: measured risk {con.max_p!r}, largest assertion p-value {max(ps)!r} of {ps}")
                pmaxes.append(max(ps))
            else:
                pmaxes.append(float("nan"))
        if ret is not None and not any(math.isnan(p) for p in pmaxes) and pmaxes:
            if not same(ret, max(pmaxes)):
                out.violate("C09.b", "audit-max", f"set_p_values returned {ret!r}, largest contest risk is {max(pmaxes)!r}")

    def check_done(self, run, done, where):
        out = self.out
        limits = {cid: run.world["contests"][cid]["risk_limit"] for cid in run.contests}
        per = {cid: all(float(a.p_value) <= limits[cid] for a in con.assertions.values()) for cid, con in run.contests.items()}
        want = all(per.values())
        if len(set(limits.values())) > 1:
            out.probe("contests with different limits")
        if any(per.values()) and not all(per.values()):
            out.probe("some contest confirmed while another is not")
            out.nontrivial = True
        if want:
            out.probe("audit complete")
        if bool(done) != want:
            out.violate("C09.c", f"{where}/reported-{bool(done)}",
                        f"summarize_status returned {done} but per-contest completion is {per} "
                        f"(p-values {[(cid, k, float(a.p_value)) for cid, c in run.contests.items() for k, a in c.assertions.items()]}, limits {limits})")

    def data_now(self, run, mvrs, cvrs):
        d = {}
        for cid, con in run.contests.items():
            for key, asn in con.assertions.items():
                try:
                    with W.quiet():
                        x, u = asn.mvrs_to_data(mvrs, cvrs)
                    d[(cid, key)] = ([float(v) for v in x], float(u))
                except Exception:
                    d[(cid, key)] = None
        return d

    def check_same_data(self, run, before, mvrs, cvrs, where):
        after = self.data_now(run, mvrs, cvrs)
        for k, b in before.items():
            a = after.get(k)
            if (a is None) != (b is None) or (a is not None and (len(a[0]) != len(b[0]) or not tight(a[1], b[1])
                                                             or any(not tight(x, y) for x, y in zip(a[0], b[0])))):
                self.out.violate("C09.d", f"{where}/data-changed",
                                 f"after the reset assertion {k} computes other data from the same sample "
                                 f"({None if b is None else b[0][:5]} before, {None if a is None else a[0][:5]} after)")
                return

    def check_reset(self, run, where):
        out = self.out
        for cid, con in run.contests.items():
            for key, asn in con.assertions.items():
                if asn.p_value != 1 or len(asn.p_history) != 0 or asn.proved:
                    out.violate("C09.d", f"{where}/assertion", f"after reset {cid}/{key} has p={asn.p_value!r}, history length "
                                                               f"{len(asn.p_history)}, proved={asn.proved}")
                if con.p_values.get(key) != 1 or con.proved.get(key) is not False:
                    out.violate("C09.d", f"{where}/contest-dicts", f"after reset contest {cid} still records {con.p_values.get(key)!r}/"
                                                                   f"{con.proved.get(key)!r} for {key}")
            if con.max_p != 1:
                out.violate("C09.d", f"{where}/contest-max", f"after reset contest {cid} has measured risk {con.max_p!r}")
        self.prev_proved = {}

    # ---------------------------------------------------------------- hooks
    def after_rebuild(self, run, r):
        self.prev_proved = {}

    def on_malformed(self, run, what):
        self.out.violate("C09.a", "malformed", f"after set_p_values {what}")

    def after_lookup(self, run, r, idx, cards, sample_order, cvr_sample, mvr_ph):
        rnd = run.case["rounds"][r]
        if not rnd.get("dry_run"):
            return
        ns, out = run.ns, self.out
        out.probe("dry run then reset")
        out.ev("op", "dry_run")
        out.shape("dry_run")
        cv = list(cvr_sample)
        mv = cv.copy()
        ref, exc = self.reference(run, mv, cv)
        try:
            with W.quiet():
                ret = ns.Assertion.set_p_values(contests=run.contests, mvr_sample=mv, cvr_sample=cv)
        except Exception as e:
            out.raised("set_p_values(dry)", e)
            if exc is None:
                out.violate("C09.a", f"dry/raised-{type(e).__name__}", f"set_p_values raised {e!r}; the assertions' own tests "
                                                                       f"do not raise on the same data")
            return
        if exc is not None:
            out.violate("C09.a", "dry/swallowed", f"an assertion's own test raises {exc} on its data but set_p_values returned")
            return
        self.compare(run, ref, float(ret), "dry")
        with W.quiet():
            done = run.audit.summarize_status(run.contests)
        self.check_done(run, done, "dry")
        before = self.data_now(run, mv, cv)
        with W.quiet():
            ns.Assertion.reset_p_values(contests=run.contests)
        if any(r_ is not None and r_[0] < 1 for r_ in ref.values()):
            out.nontrivial = True
        self.check_reset(run, "dry")
        self.check_same_data(run, before, mv, cv, "dry")

    def after_data(self, run, r, data):
        self.ref, self.ref_exc = self.reference(run, run.mvr_sample, run.cvr_sample)

    def on_exception(self, run, step, e):
        if step == "set_p_values":
            if self.ref_exc is None:
                self.out.violate("C09.a", f"round/raised-{type(e).__name__}",
                                 f"set_p_values raised {e!r}; the assertions' own tests do not raise on the same data")
        if step == "check_audit_parameters":
            self.out.violate("C09.e", f"rejected-wellformed/{type(e).__name__}", f"a well-formed configuration was refused: {e!r}")

    def after_pvalues(self, run, r, p_max, done):
        out = self.out
        ns = run.ns
        if self.ref_exc is not None:
            out.violate("C09.a", "round/swallowed", f"an assertion's own test raises {self.ref_exc} on its data but set_p_values returned")
            return
        self.compare(run, self.ref, p_max, "round")
        self.check_done(run, done, "round")
        rnd = run.case["rounds"][r]
        if rnd.get("correct_record") and not run.polling:
            self.corrected_record(run, r)
        for _ in range(rnd.get("summaries", 0)):
            with W.quiet():
                d2 = run.audit.summarize_status(run.contests)
            self.check_done(run, d2, "again")
        if rnd.get("reset_after"):
            out.probe("reset between rounds")
            out.ev("op", "reset")
            out.shape("reset")
            before = self.data_now(run, run.mvr_sample, run.cvr_sample)
            with W.quiet():
                ns.Assertion.reset_p_values(contests=run.contests)
            self.check_reset(run, "between")
            self.check_same_data(run, before, run.mvr_sample, run.cvr_sample, "between")
            if any(p < 1 for p in run.p_hist[-1].values()):
                out.nontrivial = True
            with W.quiet():
                d3 = run.audit.summarize_status(run.contests)
            self.check_done(run, d3, "after-reset")

    def corrected_record(self, run, r):
        """a manual record in the sample turns out to belong to another card: it is replaced (in the same list) by an
        'unfindable' record and the p-values are set again; what is recorded must be what each test returns on the data
        as they now stand (scored pair by pair here, not through mvrs_to_data).  Then the record is put back."""
        out, ns = self.out, run.ns
        js = [j for j, (m, c) in enumerate(zip(run.mvr_sample, run.cvr_sample)) if not m.phantom and not c.phantom]
        if not js:
            return
        j = js[len(js) // 2]
        flags = {(cid, key): asn.proved for cid, con in run.contests.items() for key, asn in con.assertions.items()}
        old = run.mvr_sample[j]
        run.mvr_sample[j] = ns.CVR(id=old.id, votes={}, phantom=True)
        out.probe("record in the sample replaced in place, p-values set again")
        out.faults["F17 manual record replaced in the sample list between two evaluations"] += 1
        style = run.use_style
        try:
            with W.quiet():
                ns.Assertion.set_p_values(contests=run.contests, mvr_sample=run.mvr_sample, cvr_sample=run.cvr_sample)
            for cid, con in run.contests.items():
                if run.world["contests"][cid]["audit_type"] == W.POLLING:
                    continue
                for key, asn in con.assertions.items():
                    with W.quiet():
                        d = [asn.overstatement_assorter(mm, cc, use_style=style) for mm, cc in zip(run.mvr_sample, run.cvr_sample)
                             if (not style) or (cc.has_contest(cid) and cc.sample_num <= con.sample_threshold)]
                        d_lib, _u = asn.mvrs_to_data(run.mvr_sample, run.cvr_sample)
                    d_lib = [float(v) for v in d_lib]
                    if len(d_lib) != len(d) or any(not tight(a_, b_) for a_, b_ in zip(d_lib, d)):
                        out.violate("C09.a", f"corrected-record/data/{run.world['contests'][cid]['test']}",
                                    f"{cid}/{key}: after record {old.id} was replaced in the sample, the sample converts to "
                                    f"{d_lib[:6]}; scored pair by pair as it now stands it is {[float(v) for v in d[:6]]}")
                        continue
                    # (the p-value is taken on the library's own numbers, now known to be the current ones up to rounding: a
                    # last-bit difference can decide the final-sample rule 'total > N t', which is not what is examined here)
                    with W.quiet():
                        p, h = W.spec_test(ns, run.world["contests"][cid], asn, asn.test.u).test(np.array(d_lib, dtype=float))
                    if not tight(float(asn.p_value), float(p)):
                        out.violate("C09.a", f"corrected-record/{run.world['contests'][cid]['test']}",
                                    f"{cid}/{key}: after record {old.id} was replaced in the sample and the p-values set again, the "
                                    f"recorded p is {float(asn.p_value)!r}; the configured test on the data as they now stand gives {float(p)!r}")
        except Exception as e:
            out.raised("set_p_values(corrected record)", e)
        finally:
            run.mvr_sample[j] = old
            for (cid, key), f in flags.items():  # 'confirmed' is sticky; what the other record confirmed does not count
                run.contests[cid].assertions[key].proved = f
            try:
                with W.quiet():
                    ns.Assertion.set_p_values(contests=run.contests, mvr_sample=run.mvr_sample, cvr_sample=run.cvr_sample)
            except Exception as e:
                out.raised("set_p_values(record put back)", e)
        for cid, con in run.contests.items():
            for key, asn in con.assertions.items():
                rf = self.ref.get((cid, key))
                if rf is not None and not tight(float(asn.p_value), rf[0]):
                    out.violate("C09.a", f"record-put-back/{run.world['contests'][cid]['test']}",
                                f"{cid}/{key}: with the original record back in the sample the recorded p is {float(asn.p_value)!r}, "
                                f"before the replacement it was {rf[0]!r}")

    def after_setup(self, run):
        """C09.e: mis-configured contests must be refused"""
        out = self.out
        ns = run.ns
        for mc in run.case.get("misconfig", []):
            kind, cid = mc["kind"], mc["contest"]
            if cid not in run.contests:
                continue
            contests = {k: copy.copy(v) for k, v in run.contests.items()}
            audit = copy.copy(run.audit)
            con = contests[cid]
            if kind == "risk-zero":
                con.risk_limit = 0
            elif kind == "risk-negative":
                con.risk_limit = -0.05
            elif kind == "risk-above-half":
                con.risk_limit = 0.51
            elif kind == "risk-just-above-half":
                con.risk_limit = [0.500004, 0.5 + 1e-9, float(np.nextafter(0.5, 1))][sum(map(ord, cid)) % 3]
            elif kind == "winner-not-candidate":
                con.winner = ["nobody"] + list(con.winner)[1:]
            elif kind == "winner-count":
                con.winner = list(con.winner) + [c for c in con.candidates if c not in con.winner][:1]
                if len(con.winner) == con.n_winners:
                    continue
            elif kind == "too-many-winners":
                con.n_winners = len(con.candidates) + 1
            elif kind == "irv-two-winners":
                if con.choice_function != "IRV" or len(con.candidates) < 2:
                    continue
                con.n_winners = 2
                con.winner = list(con.candidates)[:2]
            elif kind == "unknown-choice-function":
                con.choice_function = "BORDA"
            elif kind == "negative-error-rate":
                audit.error_rate_1 = -0.001
            out.probe("misconfiguration injected")
            out.faults["F11 mis-configured contest"] += 1
            out.ev("misconfig", [kind, cid])
            try:
                with W.quiet():
                    audit.check_audit_parameters(contests)
            except Exception:
                continue
            out.violate("C09.e", f"accepted/{kind}", f"check_audit_parameters accepted a configuration with {kind} in contest {cid}")


def execute(case):
    ns = R.load()
    out = Outcome()
    AuditRun(ns, case, out, observers=[Model(out)]).run()
    return out


def reducers(case):
    for i, mc in enumerate(case.get("misconfig", [])):
        c = copy.deepcopy(case)
        del c["misconfig"][i]
        yield c
    for i, rnd in enumerate(case["rounds"]):
        for flag in ("dry_run", "reset_after", "correct_record"):
            if rnd.get(flag):
                c = copy.deepcopy(case)
                c["rounds"][i][flag] = False
                yield c
        if rnd.get("summaries"):
            c = copy.deepcopy(case)
            c["rounds"][i]["summaries"] = 0
            yield c
    yield from G.reducers(case)
