"""C17 - each sample number maps to exactly one card; manifests account for every card (weak fit).

Storage simulation: physical batches hold the election's cards; the manifest is derived from them
with a shortfall (cards nobody accounted for) and empty batches; auditors fetch what the software's
retrieval list says, by (batch, position)."""
import bisect
import copy

import pandas as pd

from auditsim import repo as R
from auditsim import world as W
from auditsim.log import Outcome

PROP = "C17"
TIERS = {
    "quick": {"runs": 6000, "chunk": 100, "max_cards": 60},
    "thorough": {"budget_s": 600, "chunk": 100, "max_cards": 400},
}
RULE = ("one run = one physical storage layout (1..many batches, sizes >= 0), a card bound relative to the manifest "
        "(equal, larger -> phantom batch, smaller or fewer cards than CVRs -> must be refused), one vendor format and a "
        "seeded retrieval order over the whole valid range; non-trivial = more than one batch and (an empty batch, a "
        "phantom batch or a boundary number) involved; distinct = distinct event-log digest")
ASSUMPTIONS = [
    "Dominion sample numbers are 1-based (1..bound), Hart 0-based (0..bound-1), as the two lookups document",
    "batch labels (tabulator, batch) are unique, for Hart batch names alone are unique; a sample may list a number more than once (drawn with replacement): the lookup tables are keyed by card identifier, so such a card's recorded selection order may be any one of its draws",
]
COMPONENTS = {
    "real": ["Dominion.prep_manifest", "Hart.prep_manifest", "Dominion.sample_from_manifest", "Hart.sample_from_manifest",
             "Dominion.sample_from_cvrs", "Hart.sample_from_cvrs"],
    "stub": ["physical storage (batches of cards)", "auditors fetching by (batch, position)", "manifest spreadsheet"],
}
PROBES = ["empty batch crossed", "phantom batch hit", "leading empty batch", "trailing empty batch", "manifest larger than bound",
          "manifest smaller than CVR count", "single batch", "whole range sampled", "phantom CVR in CVR-driven lookup",
          "another manifest looked up earlier in the same process", "prepared manifest prepared again",
          "a sample number drawn more than once", "manifest of more than 100000 cards"]


def generate(rng, tier):
    cfg = TIERS[tier]
    nb = rng.randint(1, rng.pick([2, 5, 12]))
    sizes = []
    for _ in range(nb):
        sizes.append(0 if rng.chance(0.2) else rng.randint(1, rng.pick([2, 8, max(2, cfg["max_cards"] // 3)])))
    if sum(sizes) == 0:
        sizes[rng.randrange(nb)] = rng.randint(1, 5)
    tab = rng.randint(1, 50)
    names = rng.sample(range(1, 9), nb) if nb <= 8 and rng.chance(0.5) else [100 + i for i in range(nb)]
    batches = [{"tab": str(tab + i // 3), "batch": str(names[i]), "n": s} for i, s in enumerate(sizes)]
    huge = rng.chance(0.06)
    if huge:  # a real county: hundreds of thousands of cards, a bound that exceeds the manifest by a card or two
        sizes = [rng.randint(20000, 180000) if s else 0 for s in sizes]
        batches = [dict(b, n=s) for b, s in zip(batches, sizes)]
    total = sum(sizes)
    rel = rng.wpick([("equal", 3), ("larger", 4), ("smaller", 3 if huge else 1)])
    bound = total if rel == "equal" else (total + rng.randint(1, 6) if rel == "larger" else total - rng.randint(1, total))
    if rel == "smaller" and rng.chance(0.8 if huge else 0.5):
        bound = total - rng.randint(1, min(total, 3))  # a manifest that overshoots the bound by a card or two
    n_cvrs = rng.pick([total, total, rng.randint(0, total), total + rng.randint(1, 3)])
    if huge and rel != "smaller":
        n_cvrs = rng.pick([total, total, total - rng.randint(0, 5), total + rng.randint(1, 3)])
    vendor = rng.pick(["dominion", "hart"])
    lo = 1 if vendor == "dominion" else 0
    valid = list(range(lo, lo + max(bound, 0)))
    mode = rng.pick(["whole", "whole", "subset"])
    if huge:
        edges = {lo, lo + max(bound, 0) - 1}
        acc = 0
        for s_ in sizes:
            acc += s_
            edges.update({lo + acc - 2, lo + acc - 1, lo + acc, lo + acc + 1})
        edges.update(rng.randint(lo, lo + max(bound, 1) - 1) for _ in range(6))
        sample = sorted(e for e in edges if lo <= e < lo + max(bound, 0))
        rng.shuffle(sample)
    else:
        sample = list(valid)
        rng.shuffle(sample)
        if mode == "subset" and sample:
            sample = sample[: rng.randint(1, len(sample))]
    if sample and not huge and rng.chance(0.12):
        # a sample drawn with replacement lists a number more than once
        for _ in range(rng.randint(1, 3)):
            sample.insert(rng.randint(0, len(sample)), rng.pick(sample))
    # other storage layouts looked up earlier in the same process (an earlier county, an earlier round): same number
    # of batches and the same total, other sizes
    prelude = []
    for _ in range(0 if huge else rng.randint(0, 2)):
        alt = list(sizes)
        rng.shuffle(alt)
        if len(alt) >= 2 and rng.chance(0.7):
            i, j = rng.sample(range(len(alt)), 2)
            mv = rng.randint(0, alt[i])
            alt[i] -= mv
            alt[j] += mv
        prelude.append(alt)
    n_ph = max(0, bound - total)
    n_list = total + n_ph  # the CVR list a comparison audit samples from: one CVR per card, then phantom CVRs
    return {"vendor": vendor, "batches": batches, "bound": bound, "n_cvrs": n_cvrs, "sample": sample, "prelude": prelude,
            # the spreadsheet's row labels need not be 0..n-1 in row order (sorted, filtered or concatenated sheets)
            "index": rng.pick([None, None, rng.perm(nb), [10 * (i + 1) for i in range(nb)]]),
            "reprep": rng.pick([None, None, "same", "larger", "smaller"]),
            "cvr_sample": rng.sample(range(n_list), rng.randint(0, min(n_list, 12))) if n_list and not huge else [],
            # the CVR's position field is the exporter's business: the card's number, nothing, or a 0-based rank
            "card_in_batch": rng.pick(["pos", "pos", "none", "rank0"]),
            # a spreadsheet read with dtype=str hands the tabulator / batch labels over as text, not numbers
            "labels": rng.pick(["int", "int", "str"])}


def raw_manifest(case):
    if case["vendor"] == "dominion":
        df = pd.DataFrame([{"Tray #": i + 1, "Tabulator Number": int(b["tab"]), "Batch Number": int(b["batch"]),
                            "Total Ballots": int(b["n"]), "VBMCart.Cart number": 1 + i // 2}
                           for i, b in enumerate(case["batches"])])
    else:
        df = pd.DataFrame([{"Container": f"box{1 + i // 2}", "Tabulator": int(b["tab"]), "Batch Name": int(b["batch"]),
                            "Number of Ballots": int(b["n"])} for i, b in enumerate(case["batches"])])
    if case.get("labels") == "str":
        for c in (["Tabulator Number", "Batch Number"] if case["vendor"] == "dominion" else ["Tabulator", "Batch Name"]):
            df[c] = df[c].astype(str)
    if case.get("index") is not None and len(case["index"]) == len(df):
        df.index = list(case["index"])
    return df


def execute(case):
    ns = R.load()
    out = Outcome()
    vendor = case["vendor"]
    V = ns.Dominion if vendor == "dominion" else ns.Hart
    batches = case["batches"]
    sizes = [b["n"] for b in batches]
    total = sum(sizes)
    bound, n_cvrs = case["bound"], case["n_cvrs"]
    out.shape(f"{vendor} nb={min(len(batches), 4)} rel={'eq' if bound == total else ('gt' if bound > total else 'lt')} "
              f"cvrs={'ok' if n_cvrs <= total else 'too-many'}")
    if len(batches) == 1:
        out.probe("single batch")
    if sizes[0] == 0:
        out.probe("leading empty batch")
    if sizes[-1] == 0:
        out.probe("trailing empty batch")
    # ---- earlier lookups in the same process (their result is not judged; they only precede the one that is)
    for alt in case.get("prelude", []):
        try:
            c2 = dict(case, batches=[dict(b, n=a) for b, a in zip(batches, alt)])
            with W.quiet():
                m2, _c, _p = V.prep_manifest(raw_manifest(c2), max(bound, total), 0)
                lo_ = 1 if vendor == "dominion" else 0
                V.sample_from_manifest(m2, list(range(lo_, lo_ + max(bound, total))))
            out.probe("another manifest looked up earlier in the same process")
            out.ev("prelude", alt)
        except Exception as e:
            out.raised("prelude", e)
    # ---- C17.e prep_manifest
    must_refuse = total > bound or total < n_cvrs
    if total > bound:
        out.probe("manifest larger than bound")
    if total < n_cvrs:
        out.probe("manifest smaller than CVR count")
    try:
        with W.quiet():
            man, man_cards, phantoms = V.prep_manifest(raw_manifest(case), bound, n_cvrs)
    except Exception as e:
        out.raised("prep_manifest", e)
        out.ev("prep", ["raised", type(e).__name__])
        if not must_refuse:
            out.violate("C17.e", f"{vendor}/raised-{type(e).__name__}",
                        f"prep_manifest refused a manifest of {total} cards with bound {bound} and {n_cvrs} CVRs: {e!r}")
        return out
    if must_refuse:
        out.violate("C17.e", f"{vendor}/accepted", f"prep_manifest accepted a manifest of {total} cards with bound {bound} and {n_cvrs} CVRs")
        return out
    size_col = "Total Ballots" if vendor == "dominion" else "Number of Ballots"
    tab_col = "Tabulator Number" if vendor == "dominion" else "Tabulator"
    try:
        got_sizes = [int(x) for x in man[size_col]]
        cum = [int(x) for x in man["cum_cards"]]
    except Exception as e:
        out.violate("C17.e", f"{vendor}/malformed", f"prepared manifest has unusable sizes / cumulative counts: {e!r}")
        return out
    out.ev("prep", [int(man_cards), int(phantoms), got_sizes])
    if int(man_cards) != total or int(phantoms) != bound - total:
        out.violate("C17.e", f"{vendor}/counts", f"prep_manifest reports {man_cards} cards and {phantoms} phantoms for a manifest of "
                                                 f"{total} with bound {bound}")
    if sum(got_sizes) != bound:
        out.violate("C17.e", f"{vendor}/total", f"prepared manifest accounts for {sum(got_sizes)} cards, bound {bound}")
    exp_sizes = sizes + ([bound - total] if bound > total else [])
    if got_sizes != exp_sizes:
        out.violate("C17.e", f"{vendor}/batches", f"prepared manifest has batch sizes {got_sizes}, expected {exp_sizes}")
        return out
    if bound > total and str(man.iloc[-1][tab_col]) != "phantom":
        out.violate("C17.e", f"{vendor}/phantom-label", "the appended batch is not labelled 'phantom'")
    acc = 0
    for s_, c_ in zip(exp_sizes, cum):
        acc += s_
        if c_ != acc:
            out.violate("C17.e", f"{vendor}/cumulative", f"cumulative counts {cum} do not match sizes {exp_sizes}")
            break
    # ---- C17.e again: a prepared manifest that is prepared once more (a later round, a revised bound)
    rp = case.get("reprep")
    if rp and vendor == "dominion" and not out.violations:
        b2 = {"same": bound, "larger": bound + 3, "smaller": bound - 1}[rp]
        out.probe("prepared manifest prepared again")
        try:
            with W.quiet():
                man2, mc2, ph2 = V.prep_manifest(man.copy(), b2, n_cvrs)
            sz2 = [int(x) for x in man2[size_col]]
            out.ev("reprep", [rp, int(mc2), int(ph2), sz2])
            if rp == "smaller":
                out.violate("C17.e", f"{vendor}/reprep-accepted", f"a manifest accounting for {bound} cards was accepted against a bound of {b2}")
            elif sum(sz2) != b2 or int(mc2) != bound or int(ph2) != b2 - bound:
                out.violate("C17.e", f"{vendor}/reprep-total", f"a manifest already accounting for {bound} cards, prepared again with bound "
                                                               f"{b2}: reports {mc2} cards, {ph2} phantoms, accounts for {sum(sz2)}")
        except Exception as e:
            out.raised("prep_manifest(again)", e)
            out.ev("reprep", [rp, "raised", type(e).__name__])
            if rp != "smaller":
                out.violate("C17.e", f"{vendor}/reprep-raised-{type(e).__name__}", f"preparing an already prepared manifest (bound {bound} -> {b2}) raised {e!r}")
    # ---- C17.a-c lookup over the (whole) valid range
    sample = case["sample"]
    lo = 1 if vendor == "dominion" else 0
    if sorted(sample) == list(range(lo, lo + bound)):
        out.probe("whole range sampled")
    if sample:
        try:
            with W.quiet():
                cards, order, mvr_ph = V.sample_from_manifest(man, list(sample))
        except Exception as e:
            out.raised("sample_from_manifest", e)
            out.violate("C17.a", f"{vendor}/raised-{type(e).__name__}", f"sample_from_manifest raised {e!r} for valid numbers {sample[:8]}")
            return out
        # reference: physical storage.  the k-th card overall (k = 1..) lives in batch b at position p (1-based)
        labels = [(b["tab"], b["batch"]) for b in batches] + ([("phantom", "1")] if bound > total else [])
        ends = []
        acc = 0
        for s_ in exp_sizes:
            acc += s_
            ends.append(acc)
        idcol = 5 if vendor == "dominion" else 4
        by_id = {c[idcol]: c for c in cards}
        fetched = []
        exp_ph = []
        drawn_at = {}
        for i, s in enumerate(sample):
            drawn_at.setdefault(s, []).append(i)
        repeats = len(drawn_at) != len(sample)
        if repeats:
            out.probe("a sample number drawn more than once")
        if total > 100000:
            out.probe("manifest of more than 100000 cards")
        for i, s in enumerate(sample):
            k = s if vendor == "dominion" else s + 1  # which physical card the number designates
            bi = bisect.bisect_left(ends, k)
            p = k - (ends[bi - 1] if bi else 0)
            pos = p if vendor == "dominion" else p - 1
            tab, batch = labels[bi]
            cid = f"{tab}-{batch}-{pos}"
            if labels[bi][0] == "phantom":
                exp_ph.append(cid)
                out.probe("phantom batch hit")
            if any(sz == 0 for sz in exp_sizes[:bi]):
                out.probe("empty batch crossed")
            if cid not in by_id:
                out.violate("C17.a", f"{vendor}/wrong-card",
                            f"sample number {s} designates card {cid} (batch sizes {exp_sizes}); the retrieval list has "
                            f"{sorted(by_id)[:6]}...")
                return out
            row = by_id[cid]
            if vendor == "dominion":
                exp_row = ([str(1 + bi // 2), str(bi + 1)] if labels[bi][0] != "phantom" else None)
                got_row = [str(row[0]), str(row[1]), str(row[2]), str(row[3]), int(row[4])]
                want = (exp_row or got_row[:2]) + [str(tab), str(batch), pos]
            else:
                got_row = [str(row[0]), str(row[1]), str(row[2]), int(row[3])]
                want = [(f"box{1 + bi // 2}" if labels[bi][0] != "phantom" else got_row[0]), str(tab), str(batch), pos]
            if got_row != want:
                out.violate("C17.a", f"{vendor}/retrieval-row", f"card {cid}: the retrieval list says {got_row}, storage says {want}")
            if order.get(cid, {}).get("selection_order") not in drawn_at[s]:
                # (a card drawn several times has one table entry: any of its draws is a truthful selection order)
                out.violate("C17.b", f"{vendor}/selection-order",
                            f"card {cid} was drawn at position(s) {drawn_at[s]} but its recorded selection order is {order.get(cid)}")
            fetched.append(cid)
        if len(set(fetched)) != len(drawn_at) or len(by_id) != len(drawn_at) or (not repeats and len(cards) != len(sample)):
            out.violate("C17.a", f"{vendor}/not-injective", f"{len(drawn_at)} distinct sample numbers map to {len(set(fetched))} distinct cards "
                                                            f"({len(by_id)} on the retrieval list)")
        out.ev("lookup", fetched)
        got_ph = sorted(m.id for m in mvr_ph)
        if repeats:
            got_ph, exp_ph = sorted(set(got_ph)), sorted(set(exp_ph))
        if got_ph != sorted(exp_ph) or any(not m.phantom for m in mvr_ph):
            out.violate("C17.c", f"{vendor}/phantoms", f"phantom manual records {got_ph[:6]} but the phantom batch holds {sorted(exp_ph)[:6]}")
        out.units["draws"] += len(sample)
        if len(exp_sizes) > 1 and (0 in exp_sizes or bound > total):
            out.nontrivial = True
    # ---- C17.d lookup from sampled CVRs
    cs = case["cvr_sample"]
    if cs and total:
        cvrs = []
        for bi, b in enumerate(batches):
            for p in range(1, b["n"] + 1):
                cid = f"{b['tab']}-{b['batch']}-{p}" if vendor == "dominion" else f"{b['batch']}_{p}"
                cib = {"pos": p, "none": None, "rank0": p - 1}[case.get("card_in_batch", "pos")]
                cvrs.append(ns.CVR(id=cid, votes={}, card_in_batch=cib))
        for k in range(max(0, bound - total)):
            cvrs.append(ns.CVR(id=f"phantom-1-{k + 1}", votes={}, phantom=True))
        cs = [i for i in cs if i < len(cvrs)]
        try:
            with W.quiet():
                cards2, order2, cvr_sample, ph2 = V.sample_from_cvrs(cvrs, man, list(cs))
        except Exception as e:
            out.raised("sample_from_cvrs", e)
            out.violate("C17.d", f"{vendor}/raised-{type(e).__name__}", f"sample_from_cvrs raised {e!r}")
            return out
        if [c.id for c in cvr_sample] != [cvrs[i].id for i in cs] or any(a is not cvrs[i] for a, i in zip(cvr_sample, cs)):
            out.violate("C17.d", f"{vendor}/order", "sampled CVRs are not returned in selection order")
        for i, s in enumerate(cs):
            if order2.get(cvrs[s].id, {}).get("selection_order") != i:
                out.violate("C17.d", f"{vendor}/selection-order", f"CVR {cvrs[s].id} drawn {i}-th has selection order {order2.get(cvrs[s].id)}")
                break
        if sorted(c[5 if vendor == 'dominion' else (3 if len(c) == 4 else 4)] for c in cards2) != sorted(cvrs[i].id for i in cs):
            out.violate("C17.d", f"{vendor}/ids", "identifiers on the retrieval list do not match the sampled CVRs")
        tab_of = {}
        for bi, b in enumerate(batches):
            tab_of[(b["tab"], b["batch"]) if vendor == "dominion" else b["batch"]] = (b["tab"], bi)
        for c2 in cards2:
            try:
                if vendor == "dominion" and str(c2[2]) != "phantom" and not str(c2[5]).startswith("phantom"):
                    t_, bi = tab_of[(str(c2[2]), str(c2[3]))]
                    if [str(c2[0]), str(c2[1])] != [str(1 + bi // 2), str(bi + 1)]:
                        out.violate("C17.d", "dominion/retrieval-row", f"card {c2[5]}: cart/tray {c2[:2]}, the manifest says {[1 + bi // 2, bi + 1]}")
                if vendor == "hart" and len(c2) == 4:
                    t_, bi = tab_of[str(c2[1])]
                    if str(c2[0]) != str(t_):
                        out.violate("C17.d", "hart/retrieval-row", f"card {c2[3]}: tabulator {c2[0]!r}, the manifest says {t_!r}")
            except Exception as e:
                out.violate("C17.d", f"{vendor}/retrieval-row-malformed", f"retrieval row {list(c2)} cannot be matched to the manifest: {e!r}")
        want_ph = sorted(cvrs[i].id for i in cs if cvrs[i].phantom)
        if want_ph:
            out.probe("phantom CVR in CVR-driven lookup")
        if sorted(m.id for m in ph2) != want_ph or any(not m.phantom for m in ph2):
            out.violate("C17.d", f"{vendor}/phantoms", f"phantom manual records {sorted(m.id for m in ph2)[:5]} for sampled phantom CVRs {want_ph[:5]}")
        out.ev("cvr_lookup", [c.id for c in cvr_sample])
    return out


def reducers(case):
    nb = len(case["batches"])
    for i in reversed(range(nb)):
        if nb <= 1:
            break
        c = copy.deepcopy(case)
        n = c["batches"][i]["n"]
        del c["batches"][i]
        c["bound"] -= n
        c["prelude"] = []
        c["n_cvrs"] = min(c["n_cvrs"], sum(b["n"] for b in c["batches"]))
        lo = 1 if c["vendor"] == "dominion" else 0
        c["sample"] = [s for s in c["sample"] if lo <= s < lo + c["bound"]]
        c["cvr_sample"] = [s for s in c["cvr_sample"] if s < sum(b["n"] for b in c["batches"])]
        if c["bound"] >= 0:
            yield c
    for i, b in enumerate(case["batches"]):
        if b["n"] > 0:
            c = copy.deepcopy(case)
            c["batches"][i]["n"] -= 1
            c["prelude"] = []
            c["bound"] -= 1
            tot = sum(x["n"] for x in c["batches"])
            c["n_cvrs"] = min(c["n_cvrs"], tot) if case["n_cvrs"] <= sum(x["n"] for x in case["batches"]) else tot + 1
            lo = 1 if c["vendor"] == "dominion" else 0
            c["sample"] = [s for s in c["sample"] if lo <= s < lo + c["bound"]]
            c["cvr_sample"] = [s for s in c["cvr_sample"] if s < tot]
            if c["bound"] >= 0 and tot > 0:
                yield c
    if case.get("prelude"):
        for i in range(len(case["prelude"])):
            c = copy.deepcopy(case)
            del c["prelude"][i]
            yield c
    if case.get("reprep"):
        c = copy.deepcopy(case)
        c["reprep"] = None
        yield c
    if len(case["sample"]) > 1:
        for i in range(len(case["sample"])):
            c = copy.deepcopy(case)
            del c["sample"][i]
            yield c
    if case["cvr_sample"]:
        c = copy.deepcopy(case)
        c["cvr_sample"] = []
        yield c
