"""C06 - data handed to a test always lie inside the bound the test is told.

Monitor on every mvrs_to_data / set_p_values of whole simulated audits (all audit types), with
transcription faults of every size, unfindable cards, phantoms, pooled batches, missing contests."""
from auditsim import repo as R
from auditsim import world as W
from auditsim import gen as G
from auditsim.driver import AuditRun
from auditsim.log import Outcome, same, close, tight

PROP = "C06"
TIERS = {
    "quick": {"runs": 8000, "chunk": 100, "max_cards": 40},
    "thorough": {"budget_s": 900, "chunk": 100, "max_cards": 150},
}
RULE = ("one run = one seeded election, fault plan and 1-4 round schedule on the real pipeline; every (data, u) pair an "
        "assertion is given is inspected; non-trivial = a discrepancy, unfindable card, phantom or pooled CVR "
        "actually entered some assertion's data; distinct = distinct event-log digest")
ASSUMPTIONS = [
    "margins are positive (reported winners are what the CVRs say), as the quantifier states",
    "range checks use 1e-12 slack; u is compared with 2/(2 - v/u_assorter) to 1e-9 relative",
    "a call that raises hands no numbers to the test (counted, not judged here; see C03.x)",
]
COMPONENTS = {
    "real": ["Assertion.mvrs_to_data", "Assertion.set_p_values", "Assertion.set_all_margins_from_cvrs", "Assorter.overstatement",
             "Assertion.overstatement_assorter", "Assorter.set_tally_pool_means", "make_*_assertions (assorters and bounds)",
             "CVR.consistent_sampling", "CVR.make_phantoms", "Dominion.sample_from_cvrs/sample_from_manifest"],
    "stub": ["election", "voting system", "auditors", "manifest"],
}
PROBES = ["datum equals u", "datum equals 0", "super-majority bound > 1", "super-majority bound < 1", "pooled CVR in data",
          "phantom CVR in data", "phantom MVR in data", "MVR lacks contest under style", "threshold filter removed a sampled card",
          "style off", "margins from tallies", "margins revised between rounds", "polling contest inside a comparison audit"]


def _variants(rng, case):
    """margins revised between rounds; one contest of a comparison audit audited by polling"""
    w = case["world"]
    if case.get("margins_via_tally"):
        case["tally_rules"] = rng.chance(0.5)
        for r, rnd in enumerate(case["rounds"]):
            rnd["remargin"] = bool(r > 0 and rng.chance(0.35))
    elif w["audit_type"] == W.COMPARISON and len(w["contests"]) >= 2 and rng.chance(0.15):
        cid = rng.pick(sorted(w["contests"]))
        cs = w["contests"][cid]
        cs["audit_type"] = W.POLLING
        cs.update(W.gen_test(rng, W.POLLING))
        cs["cards"] = None
        case["mixed"] = True
    if not case.get("margins_via_tally"):
        for r, rnd in enumerate(case["rounds"]):
            rnd["margin_nudge"] = bool(r > 0 and rng.chance(0.15))
    return case


def generate(rng, tier):
    cfg = TIERS[tier]
    kinds = [(W.PLURALITY, 3), (W.APPROVAL, 1), (W.SUPERMAJORITY, 4), (W.IRV, 2)]
    case = G.gen_case(rng, max_cards=cfg["max_cards"], max_rounds=4, kinds=kinds, rates=[0.0, 0.1, 0.3, 0.6])
    tally_ok = (case["world"]["audit_type"] != W.POLLING and
                all(c["choice_function"] in (W.PLURALITY, W.APPROVAL) for c in case["world"]["contests"].values()))
    case["margins_via_tally"] = bool(tally_ok and rng.chance(0.5))
    return _variants(rng, case)


class Monitor:
    def __init__(self, out):
        self.out = out

    def _formula(self, run, cid, asn):
        ub = asn.assorter.upper_bound
        if run.polling or run.world["contests"][cid]["audit_type"] == W.POLLING:
            return ub
        return 2 / (2 - asn.margin / ub)

    def install_spies(self, run):
        """every call of an assertion's test - from set_p_values or from the sample-size routines - is given numbers
        in [0, u] for the u the test holds at that moment"""
        import numpy as _np
        for cid, con in run.contests.items():
            for key, asn in con.assertions.items():
                t = asn.test
                if "_c06_inner" in t.__dict__:
                    continue
                inner = t.test

                def spy(x, _t=t, _inner=inner, _k=(cid, key), **kw):
                    self.seen[_k] = float(_t.u)
                    try:
                        arr = _np.asarray(x, dtype=float)
                        if arr.size and (float(_np.nanmax(arr)) > float(_t.u) * (1 + 1e-12) + 1e-12 or float(_np.nanmin(arr)) < -1e-12):
                            self.out.violate("C06.a", f"in-test/{run.world['contests'][_k[0]]['audit_type']}",
                                             f"{_k[0]}/{_k[1]}: the test was run on values in [{float(_np.nanmin(arr))!r}, "
                                             f"{float(_np.nanmax(arr))!r}] while its bound was u={float(_t.u)!r}")
                    except Exception:
                        pass
                    return _inner(x, **kw)

                t.__dict__["_c06_inner"] = inner
                t.test = spy

    def after_rebuild(self, run, r):
        self.install_spies(run)

    def after_setup(self, run):
        out = self.out
        self.seen = {}
        self.install_spies(run)
        # looking at the election does not change it: the diluted margins (every card, whether or not it lists the
        # contest) are asked for, and every record must still list exactly the contests it listed before
        if run.case.get("diluted_look") and not run.polling:
            before = [(c.id, sorted(c.votes.keys())) for c in run.cvr_list]
            for cid, con in run.contests.items():
                for key, asn in con.assertions.items():
                    try:
                        with W.quiet():
                            run.ns.Assertion.margin(asn, run.cvr_list, use_style=False)
                    except Exception as e:
                        out.raised("Assertion.margin(diluted)", e)
            out.probe("diluted margins looked at before sampling")
            after = [(c.id, sorted(c.votes.keys())) for c in run.cvr_list]
            changed = [(a, b) for a, b in zip(before, after) if a != b]
            if changed:
                out.violate("C06.d", f"records-changed-by-a-look/{run.world['audit_type']}",
                            f"after the diluted margins were computed, record {changed[0][0][0]} lists {changed[0][1][1]} "
                            f"(before: {changed[0][0][1]}); {len(changed)} records changed")
        if not run.use_style:
            out.probe("style off")
        for cid, con in run.contests.items():
            descs = W.assertion_descriptors(cid, run.world["contests"][cid])
            for key, asn in con.assertions.items():
                ref_ub = W.assorter_upper(descs[key])
                if ref_ub > 1:
                    out.probe("super-majority bound > 1")
                if ref_ub < 1:
                    out.probe("super-majority bound < 1")
                if not close(asn.assorter.upper_bound, ref_ub):
                    out.violate("C06.b", f"assorter-bound/{descs[key]['kind']}",
                                f"assorter bound of {cid}/{key} is {asn.assorter.upper_bound}, the assorter reaches {ref_ub}")
                exp = self._formula(run, cid, asn)
                if run.case.get("margins_via_tally"):
                    continue  # margins from tallies do not install u; set_p_values has to
                if not close(asn.test.u, exp):
                    out.violate("C06.c", f"after-margins/{run.world['audit_type']}",
                                f"after margins were set the test of {cid}/{key} has u={asn.test.u}, expected {exp} "
                                f"(margin {asn.margin}, assorter bound {asn.assorter.upper_bound})")

    def after_data(self, run, r, data):
        out = self.out
        ns = run.ns
        for (cid, key), (d, u) in sorted(data.items()):
            con = run.contests[cid]
            asn = con.assertions[key]
            exp_u = self._formula(run, cid, asn)
            if not close(u, exp_u):
                out.violate("C06.b", f"returned-u/{run.world['audit_type']}",
                            f"{cid}/{key}: returned bound {u}, expected {exp_u} (margin {asn.margin}, assorter bound "
                            f"{asn.assorter.upper_bound})")
            # no slack below 0: a datum of -1e-15 flips the sign of a martingale whose alternative sits at u (F-C06-1)
            # ... and none above u either: the largest possible datum and u are the same expression, and a test may
            # refuse data above its bound (the SPRT raises)
            bad = [x for x in d if not (0 <= x <= u)]
            if bad:
                out.violate("C06.a", f"{run.world['contests'][cid]['audit_type']}/{run.world['contests'][cid]['choice_function']}",
                            f"{cid}/{key}: datum {bad[0]!r} outside [0, {u}] (round {r})")
            if any(abs(x - u) <= 1e-12 for x in d):
                out.probe("datum equals u")
            if any(abs(x) <= 1e-12 for x in d):
                out.probe("datum equals 0")
            # which cards contribute
            if run.polling or run.world["contests"][cid]["audit_type"] == W.POLLING:
                if not run.polling:
                    out.probe("polling contest inside a comparison audit")
                exp = [asn.assorter.assort(m) for m in run.mvr_sample]
            else:
                exp = []
                # the contest's sample is its first n_c cards in sample-number order: the cut-off is the n_c-th smallest
                # number among the cards listing it (worked out here, not read from the library's bookkeeping)
                thr = con.sample_threshold
                n_c = int(getattr(run, "last_sizes", {}).get(cid, 0))
                mine = sorted(c.sample_num for c in run.cvr_list if c.has_contest(cid))
                if run.use_style and 1 <= n_c <= len(mine):
                    thr = mine[n_c - 1]
                    if con.sample_threshold != thr:
                        out.violate("C06.d", f"threshold/{run.world['audit_type']}",
                                    f"{cid}: {n_c} of its cards were asked for, the {n_c}-th in sample-number order has number "
                                    f"{thr}, but the contest's cut-off is {con.sample_threshold} (round {r})")
                for m, c in zip(run.mvr_sample, run.cvr_sample):
                    if run.use_style:
                        if not c.has_contest(cid):
                            continue
                        if not (c.sample_num <= thr):
                            out.probe("threshold filter removed a sampled card")
                            continue
                    if c.pool:
                        out.probe("pooled CVR in data")
                    if c.phantom:
                        out.probe("phantom CVR in data")
                    if m.phantom:
                        out.probe("phantom MVR in data")
                    elif run.use_style and not m.has_contest(cid):
                        out.probe("MVR lacks contest under style")
                    try:
                        with W.quiet():
                            b_ = asn.overstatement_assorter(m, c, use_style=run.use_style)
                            exp.append(b_)
                            # the value is (1 - overstatement/bound) / (2 - margin/bound) with the margin in force now
                            om = asn.assorter.overstatement(m, c, use_style=run.use_style)
                        ub_ = asn.assorter.upper_bound
                        want = (1 - om / ub_) / (2 - asn.margin / ub_)
                        if not tight(b_, want):
                            out.violate("C06.d", f"value-formula/{run.world['audit_type']}",
                                        f"{cid}/{key}: card {c.id} is handed over as {float(b_)!r}; its overstatement {float(om)!r}, "
                                        f"bound {ub_} and the margin in force {asn.margin!r} give {float(want)!r} (round {r})")
                    except Exception:
                        exp = None
                        break
            if exp is not None and (len(exp) != len(d) or any(not tight(a, b) for a, b in zip(exp, d))):
                out.violate("C06.d", f"{run.world['audit_type']}/style={run.use_style}",
                            f"{cid}/{key}: {len(d)} data values but {len(exp)} cards list the contest within its "
                            f"threshold (round {r}); data {d[:6]} expected {[float(x) for x in exp[:6]]}")
            if any(p in out.probes for p in ("pooled CVR in data", "phantom CVR in data", "phantom MVR in data",
                                              "MVR lacks contest under style")) or any(abs(x - 0.5 * u) > 1e-9 for x in d):
                out.nontrivial = True
        self.last = {k: v[1] for k, v in data.items()}
        # observe the bound in force *while* each test runs (set_p_values comes next)
        self.seen = {}
        self.install_spies(run)

    def after_reestimate(self, run, r, again):
        """the same sample converted once more after the estimate was looked up: the same data"""
        first = run.data_hist[-1]
        for k, (d2, u2) in sorted(again.items()):
            if k not in first:
                continue
            d1, u1 = first[k]
            if len(d1) != len(d2) or any(not tight(a, b) for a, b in zip(d1, d2)) or not tight(u1, u2):
                self.out.violate("C06.d", f"after-estimate/{run.world['audit_type']}",
                                 f"{k[0]}/{k[1]}: the sample gave {len(d1)} values {d1[:5]} (u={u1}); converted again after the "
                                 f"sample-size estimate was looked up it gives {len(d2)} values {d2[:5]} (u={u2}) (round {r})")
                return

    def after_pvalues(self, run, r, p_max, done):
        for cid, con in run.contests.items():
            for key, asn in con.assertions.items():
                u = self.last.get((cid, key))
                if u is not None and not tight(asn.test.u, u):
                    self.out.violate("C06.c", f"installed/{run.world['audit_type']}",
                                     f"{cid}/{key}: data came with bound {u} but the test is left with u={asn.test.u}")
                su = self.seen.get((cid, key))
                if u is not None and su is not None and not tight(su, u):
                    self.out.violate("C06.c", f"in-force/{run.world['audit_type']}",
                                     f"{cid}/{key}: data came with bound {u} but while the p-values were computed the test had u={su}")


def execute(case):
    ns = R.load()
    out = Outcome()
    AuditRun(ns, case, out, observers=[Monitor(out)]).run()
    return out


def reducers(case):
    yield from G.reducers(case)
