"""C03 - comparison audits test the right null hypothesis (overstatement reduction).

AuditWorld, whole-population audit: every card gets a manual record or is declared unfindable, with
transcription faults; CVRs include lost cards (phantoms, inside or outside pools) and ONEAudit
pooled batches; margins and pool means come from the real code.  Oracle: the reduction identity
over the whole population of (CVR, MVR) pairs."""
import copy

import numpy as np

from auditsim import repo as R
from auditsim import world as W
from auditsim import gen as G
from auditsim.driver import AuditRun, Abort
from auditsim.log import Outcome, close

PROP = "C03"
TIERS = {
    "quick": {"runs": 12000, "chunk": 200, "max_cards": 40},
    "thorough": {"budget_s": 900, "chunk": 200, "max_cards": 200},
}
RULE = ("one run = one seeded election with CVRs (lost cards -> phantoms, pooled batches), style on or off, and a manual "
        "record (possibly faulty, possibly unfindable) for every card; the identity is evaluated for every assertion "
        "over the whole population; non-trivial = some manual record differs from its CVR (marks, encoding, contests, "
        "or unfindable) or a phantom / pooled CVR is in the population; distinct = distinct event-log digest")
ASSUMPTIONS = [
    "equality of the two sides is compared to 1e-9 relative (they are computed along different arithmetic paths)",
    "A is the library's own assorter applied to the manual record, 0 for an unfindable card and, under style, for a record lacking the contest (as the statement defines it)",
    "a phantom CVR's card is unfindable (its manual record is a phantom), as the library's lookup functions arrange",
]
COMPONENTS = {
    "real": ["CVR.make_phantoms", "CVR.pool_contests", "CVR.add_pool_contests", "Contest.check_cards", "make_*_assertions",
             "Assorter.set_tally_pool_means", "Assertion.set_all_margins_from_cvrs", "Assorter.overstatement",
             "Assertion.overstatement_assorter", "Assorter.assort"],
    "stub": ["election", "voting system (CVR errors, lost CVRs, pooling)", "auditors (whole-population transcription with faults)"],
}
PROBES = ["pool contains phantom", "phantom outside pools", "style off with heterogeneous styles", "manual record lacks contest",
          "unfindable card", "pooled batch", "super-majority", "IRV", "mean(B) <= 1/2 (assertion false on the paper)",
          "negative margin (CVRs contradict the reported outcome)", "pooled batch of more than 100000 cards",
          "the CVRs themselves stand in for the manual records", "diluted margins / means looked at before the identity"]


def generate(rng, tier):
    cfg = TIERS[tier]
    if rng.chance(cfg.get("p_big", 0.002)):
        # a county-sized pooled batch (kept compact in the case, expanded when executed): batch means that differ from
        # an assorter value by a few parts in a million are still different
        case = G.gen_case(rng, max_cards=12, max_rounds=1, audit_types=[(W.ONEAUDIT, 1)], kinds=[(W.PLURALITY, 1)], max_contests=2,
                          homogeneous_when_style_off=False, p_shortfall=0.3)
        case["rounds"] = []
        case["rehearsal"] = None
        case["margins_via_tally"] = False
        case["big_pool"] = {"n": rng.randint(100000, 130000), "lead": rng.pick([1, 1, 1, 2, 0, 3]), "blank_every": rng.pick([2, 3, 7]),
                            "seed": rng.getrandbits(32)}
        return case
    case = G.gen_case(rng, max_cards=cfg["max_cards"], max_rounds=1, audit_types=[(W.COMPARISON, 1), (W.ONEAUDIT, 1)],
                      homogeneous_when_style_off=False, p_shortfall=0.3)
    case["rounds"] = []
    # the identity is about all CVR lists - also those that contradict the reported outcome (the library only warns)
    if rng.chance(0.2):
        for cid, cs in case["world"]["contests"].items():
            if cs["choice_function"] == W.PLURALITY and cs["n_winners"] < len(cs["candidates"]) and rng.chance(0.6):
                losers = [c for c in cs["candidates"] if c not in cs["winner"]]
                cs["winner"] = [rng.pick(losers)] + list(cs["winner"])[1:]
                case["wrong_winner"] = True
    tally_ok = all(c["choice_function"] in (W.PLURALITY, W.APPROVAL) for c in case["world"]["contests"].values())
    case["margins_via_tally"] = bool(tally_ok and rng.chance(0.35))
    return case


def expand_big(case):
    """the compact 'big_pool' description as ordinary case data: one more batch, pooled, whose cards list the first
    contest only and split almost evenly between its reported winner and a loser; every blank_every-th manual record is
    blank in that contest"""
    bp = case.get("big_pool")
    if not bp:
        return case
    c = copy.deepcopy(case)
    world = c["world"]
    cid = sorted(world["contests"])[0]
    cs = world["contests"][cid]
    losers = [x for x in cs["candidates"] if x not in cs["winner"]]
    if not losers or not cs["winner"]:
        return c
    w, l = cs["winner"][0], losers[0]
    n = int(bp["n"])
    nw = (n + int(bp["lead"])) // 2
    tab, batch = "900", "1"
    c["batches"].append({"tab": tab, "batch": batch, "n": n})
    for pos in range(1, n + 1):
        id_ = f"{tab}-{batch}-{pos}"
        votes = {cid: {w: 1}} if pos <= nw else {cid: {l: 1}}
        c["cvrs"].append({"id": id_, "votes": votes, "tally_pool": f"{tab}-{batch}", "pool": True, "card_in_batch": pos})
        c["cards"].append({"id": id_, "tab": tab, "batch": batch, "pos": pos})
        if pos % int(bp["blank_every"]) == 0:
            c["mvr"][id_] = {"phantom": False, "votes": {cid: {}}, "faults": ["F3"]}
        else:
            c["mvr"][id_] = {"phantom": False, "votes": {cid: dict(votes[cid])}, "faults": []}
    world["max_cards"] += n
    for k, x in world["contests"].items():
        if x.get("cards") is not None and (k == cid or not world["use_style"]):
            x["cards"] += n
    c["numbering"] = {"mode": "sha256", "seed": int(bp["seed"])}
    c["mvr_via_from_dict"] = False
    c["initial_estimate"] = False
    return c


class Obs:
    def __init__(self, out):
        self.out = out

    def on_exception(self, run, step, e):
        if step in ("set_all_margins_from_cvrs", "set_tally_pool_means", "find_margins_from_tally", "Contest.tally") \
                and isinstance(e, (KeyError, TypeError, AttributeError)):
            self.out.violate("C03.x", f"{step}/style={run.use_style}/{type(e).__name__}",
                             f"{step} raised {e!r}: the margin / batch means of the population do not exist "
                             f"(style={run.use_style})")


def execute(case):
    ns = R.load()
    out = Outcome()
    if case.get("big_pool"):
        case = expand_big(case)
        out.probe("pooled batch of more than 100000 cards")
        out.shape("big-pool")
    run = AuditRun(ns, case, out, observers=[Obs(out)])
    try:
        run.setup()
    except Abort as e:
        out.ev("abort", str(e))
        return out
    style = run.use_style
    world = run.world
    cvrs = run.cvr_list
    # manual record for every record of the population
    mvrs = []
    for c in cvrs:
        if c.phantom:
            mvrs.append(ns.CVR(id=c.id, votes={}, phantom=True))
        else:
            m, f = run.mvr_for(c.id)
            for x in set(f):
                out.fault({"F1": "F1 card cannot be found", "F3": "F3 transcription differs", "F4": "F4 manual record lacks contest",
                           "F5": "F5 manual record has extra contest", "enc": "mark encoding differs"}[x])
            mvrs.append(m)
    if any(c.phantom and c.pool for c in cvrs):
        out.probe("pool contains phantom")
    if any(c.phantom and not c.pool for c in cvrs):
        out.probe("phantom outside pools")
        out.nontrivial = True
    if any(c.pool for c in cvrs):
        out.probe("pooled batch")
        out.fault("F7 batch pooled (no usable CVRs)")
    if not style and len({frozenset(c["votes"]) for c in case["cvrs"]}) > 1:
        out.probe("style off with heterogeneous styles")
    out.units["cards"] += len(cvrs)
    # C03.c every pooled CVR lists every contest of its pool
    if world["audit_type"] == W.ONEAUDIT:
        union = {}
        audited = set(world["contests"])
        for c in cvrs:
            if c.pool:
                union.setdefault(c.tally_pool, set()).update(k for k in c.votes.keys() if k in audited or not case.get("pools_restricted"))
        for c in cvrs:
            if c.pool and not union[c.tally_pool] <= set(c.votes.keys()):
                out.violate("C03.c", "pool-contests", f"pooled CVR {c.id} lists {sorted(c.votes)} but its pool "
                                                      f"{c.tally_pool} has {sorted(union[c.tally_pool])}")
                break
    # looking at the election without style information (diluted margins, the mean over the manual records) does not
    # change what any record lists
    if case.get("diluted_look") and not case.get("big_pool"):
        before = [sorted(r_.votes.keys()) for r_ in list(cvrs) + list(mvrs)]
        for cid, con in run.contests.items():
            for key, asn in sorted(con.assertions.items()):
                try:
                    with W.quiet():
                        ns.Assertion.margin(asn, cvrs, use_style=False)
                        asn.assorter.mean(mvrs, use_style=False)
                except Exception as e:
                    out.raised("diluted look", e)
        out.probe("diluted margins / means looked at before the identity")
        after = [sorted(r_.votes.keys()) for r_ in list(cvrs) + list(mvrs)]
        nchg = sum(1 for a_, b_ in zip(before, after) if a_ != b_)
        if nchg:
            out.violate("C03.a", f"records-changed-by-a-look/style={style}",
                        f"{nchg} records list other contests after the diluted margins / means were computed "
                        f"(e.g. {next((b_, a_) for a_, b_ in zip(after, before) if a_ != b_)})")
    # the documented sampling route with every card drawn: each contest's cut-off is its last card
    drawn = False
    if not case.get("big_pool"):
        try:
            for cid, con in run.contests.items():
                con.sample_size = run.avail[cid]
            with W.quiet():
                ns.CVR.consistent_sampling(cvr_list=cvrs, contests=run.contests)
            drawn = True
        except Exception as e:
            out.raised("consistent_sampling(all)", e)
    for cid, con in run.contests.items():
        descs = W.assertion_descriptors(cid, world["contests"][cid])
        kind = world["contests"][cid]["choice_function"]
        if kind == W.SUPERMAJORITY:
            out.probe("super-majority")
        if kind == W.IRV:
            out.probe("IRV")
        for key, asn in sorted(con.assertions.items()):
            out.units["assertions"] += 1
            u = asn.assorter.upper_bound
            v = asn.margin
            idx = [i for i, c in enumerate(cvrs) if (not style) or c.has_contest(cid)]
            if not idx:
                continue
            # C03.b pool means against the reference assorter
            if world["audit_type"] == W.ONEAUDIT and asn.assorter.tally_pool_means is not None:
                for pool, mean in sorted(asn.assorter.tally_pool_means.items(), key=lambda kv: str(kv[0])):
                    members = [c for c in cvrs if c.pool and c.tally_pool == pool and ((not style) or c.has_contest(cid))]
                    if not members:
                        continue
                    ref = sum(0.5 if c.phantom else W.ref_assort(descs[key], c.votes) for c in members) / len(members)
                    if not close(mean, ref):
                        out.violate("C03.b", f"pool-mean/{kind}/style={style}",
                                    f"{cid}/{key}: mean of pool {pool} is {mean!r}, the pooled CVRs listing the contest average {ref!r}")
            passes = [("", mvrs)]
            if not case.get("big_pool"):
                # an error-free audit is rehearsed by letting the CVRs stand in for the manual records (same objects)
                passes.append(("/cvrs-as-mvrs", cvrs))
                out.probe("the CVRs themselves stand in for the manual records")
            results = {}
            failed = False
            for suffix, recs in passes:
                B, A = [], []
                try:
                    with W.quiet():
                        for i in idx:
                            m, c = recs[i], cvrs[i]
                            B.append(asn.overstatement_assorter(m, c, use_style=style))
                            if m.phantom:
                                A.append(0.0)
                                out.probe("unfindable card")
                            elif style and not m.has_contest(cid):
                                A.append(0.0)
                                out.probe("manual record lacks contest")
                            else:
                                A.append(asn.assorter.assort(m))
                except Exception as e:
                    out.raised("overstatement_assorter", e)
                    out.violate("C03.x", f"overstatement/{kind}/style={style}/{type(e).__name__}{suffix}",
                                f"{cid}/{key}: the overstatement assorter raised {e!r} on a (CVR, manual record) pair of the "
                                f"population (style={style}), so mean(B) does not exist")
                    failed = True
                    break
                results[suffix] = (B, A)
            if failed:
                continue
            B, A = results[""]
            # the margin can also be asked for directly; both routes must give the v the identity uses
            try:
                with W.quiet():
                    v2 = float(ns.Assertion.margin(asn, cvrs, use_style=style))
                if not case.get("margins_via_tally") and not close(v2, v):
                    out.violate("C03.a", f"margin-routes/{kind}/style={style}",
                                f"{cid}/{key}: set_margin_from_cvrs stored v={v!r} but Assertion.margin over the same CVRs gives {v2!r}")
            except Exception as e:
                out.raised("Assertion.margin", e)
            if v < 0:
                out.probe("negative margin (CVRs contradict the reported outcome)")
            lhs = float(np.mean(B)) - 0.5
            rhs = (2 * float(np.mean(A)) - 1) / (2 * (2 * u - v))
            out.ev("identity", [cid, key, lhs, rhs])
            if lhs <= 0:
                out.probe("mean(B) <= 1/2 (assertion false on the paper)")
            if any(abs(b - 1 / (2 - v / u)) > 1e-12 for b in B):
                out.nontrivial = True
            if not close(lhs, rhs):
                out.violate("C03.a", f"{world['audit_type']}/{kind}/style={style}",
                            f"{cid}/{key}: mean(B)-1/2 = {lhs!r} but (2 mean(A)-1)/(2(2u-v)) = {rhs!r} "
                            f"(u={u}, v={v}, {len(idx)} cards)")
            # the same population handed over as record lists (the route a real audit takes to its test's data)
            if not case.get("big_pool"):
                try:
                    with W.quiet():
                        d_, _u = asn.mvrs_to_data(mvrs, cvrs, use_all=True)
                    d_ = [float(x) for x in d_]
                    if len(d_) != len(B) or any(not close(a_, b_) for a_, b_ in zip(d_, B)):
                        out.violate("C03.a", f"{world['audit_type']}/{kind}/style={style}/via-record-lists",
                                    f"{cid}/{key}: the whole population handed to mvrs_to_data gives {len(d_)} values "
                                    f"{d_[:5]}..., scoring the {len(B)} (CVR, manual record) pairs one by one gives {[float(b_) for b_ in B[:5]]}...")
                except Exception as e:
                    out.raised("mvrs_to_data(whole population)", e)
                if drawn:
                    try:
                        with W.quiet():
                            d_, _u = asn.mvrs_to_data(mvrs, cvrs)
                        d_ = [float(x) for x in d_]
                        if len(d_) != len(B) or any(not close(a_, b_) for a_, b_ in zip(d_, B)):
                            out.violate("C03.a", f"{world['audit_type']}/{kind}/style={style}/via-full-draw",
                                        f"{cid}/{key}: with every card drawn the sampled route gives {len(d_)} values {d_[:5]}..., "
                                        f"scoring the {len(B)} pairs one by one gives {[float(b_) for b_ in B[:5]]}...")
                    except Exception as e:
                        out.raised("mvrs_to_data(full draw)", e)
            if "/cvrs-as-mvrs" in results:
                B2, A2 = results["/cvrs-as-mvrs"]
                lhs2 = float(np.mean(B2)) - 0.5
                rhs2 = (2 * float(np.mean(A2)) - 1) / (2 * (2 * u - v))
                out.ev("identity(self)", [cid, key, lhs2, rhs2])
                if not close(lhs2, rhs2):
                    out.violate("C03.a", f"{world['audit_type']}/{kind}/style={style}/cvrs-as-mvrs",
                                f"{cid}/{key}: with the CVRs standing in for the manual records, mean(B)-1/2 = {lhs2!r} but "
                                f"(2 mean(A)-1)/(2(2u-v)) = {rhs2!r} (u={u}, v={v}, {len(idx)} cards)")
    out.shape(f"pool={any(c.pool for c in cvrs)} ph={int(run.n_phantoms > 0)} faults={sorted(out.faults)}")
    return out


def reducers(case):
    if case.get("big_pool"):
        c = copy.deepcopy(case)
        c["big_pool"] = None
        yield c
        for f in (2, 10):
            if case["big_pool"]["n"] // f >= 50:
                c = copy.deepcopy(case)
                c["big_pool"]["n"] = case["big_pool"]["n"] // f
                yield c
        return
    yield from G.reducers(case, keep_rounds=0)
