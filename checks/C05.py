"""C05 - non-anticipation: the p-value after j draws depends only on those j draws.

DrawSim with forked futures: a run draws x_1..x_n; at a seeded cut point k the future is replaced by
another future (other values, other length), and the run is also truncated at k.  What was already
reported must not change."""
import copy
import math

import numpy as np

from auditsim import drawsim as D
from auditsim import repo as R
from auditsim.log import Outcome, same, tight

PROP = "C05"
TIERS = {
    "quick": {"runs": 150000, "chunk": 1000, "nmax": 40},
    "thorough": {"budget_s": 600, "chunk": 1000, "nmax": 300},
}
RULE = ("one run = one configuration (every shipped test x estimator/bet, finite and infinite N) and one history "
        "x_1..x_n forked at a seeded cut point k into another future y and into a truncation; non-trivial = the "
        "two futures differ at the first forked draw and the statistic moved off 1 before the cut; distinct = "
        "distinct event-log digest")
ASSUMPTIONS = [
    "already-reported entries must agree to 1e-12 relative (a refactor may reorder floating-point operations; an estimator that peeks moves them by orders of magnitude more); NaN == NaN",
    "a call that raises reports nothing; the pair is skipped and counted",
    "values lie in [0,u]; populations are not required to satisfy the null (the property is about all samples)",
]
COMPONENTS = {
    "real": ["NonnegMean.test (all six tests)", "NonnegMean.estim (fixed_alternative_mean, shrink_trunc, optimal_comparison)",
             "NonnegMean.bet (fixed_bet, agrapa)", "sjm", "welford_mean_var"],
    "stub": ["urn", "draw scheduler with forked futures"],
}
PROBES = ["final-sample clamp fired (total > N t)", "null mean hit 0 before cut", "null mean > u before cut",
          "null mean negative before cut", "cut at 1", "cut at n-1", "truncation lowered the k-th entry",
          "call raised", "whole-number sample handed over as ints", "rounds evaluated on views of one buffer",
          "SPRT alternative recovered from two futures", "alternative recovered from two futures", "bet recovered from two futures",
          "sample longer than 4096 draws", "buffer refilled in place with another sample and evaluated again",
          "estimator / bettor asked again after another sample of the same length was tested"]


def generate(rng, tier):
    cfg_t = TIERS[tier]
    cfg = D.gen_config(rng)
    u, t = cfg["u"], cfg["t"]
    finite = cfg["mode"] == "finite"
    n = rng.randint(2, rng.pick([6, 12, cfg_t["nmax"]]))
    if rng.chance(cfg_t.get("p_long", 0.004)):
        n = rng.randint(4097, 5200)  # a sample as long as a large audit's (thousands of cards)
    q = 64
    umax = int(math.floor(u * q + 1e-12))
    style = rng.pick(["any", "low", "high", "binary", "const-then-jump", "at-null", "binary"])
    as_given = bool(style == "binary" and u >= 1 and rng.chance(0.6))

    def draw(i):
        if style == "any":
            return rng.randint(0, umax)
        if style == "low":
            return rng.pick([0, 0, 0, rng.randint(0, umax)])
        if style == "high":
            return rng.pick([umax, umax, rng.randint(0, umax)])
        if style == "binary":
            return rng.pick([0, umax])
        if style == "at-null":
            return rng.pick([int(t * q), int(t * q), rng.randint(0, umax)])
        return int(t * q) if i < n // 2 else rng.randint(0, umax)

    if as_given:
        # whole-number data handed over as Python ints (a polling sample of 0/1 assorter values)
        x = [float(rng.pick([0, 1])) for _ in range(n)]
    else:
        x = [draw(i) / q for i in range(n)]
    k = rng.pick([1, n - 1, rng.randint(1, n - 1)])
    ny = rng.randint(1, max(1, rng.pick([2, n, 2 * n])))
    y = [rng.randint(0, umax) / q for _ in range(ny)]
    if rng.chance(0.8) and y[0] == x[k]:
        y[0] = (umax / q) if x[k] < umax / q else 0.0
    if finite:
        # population size: sometimes exactly the sample (so the final-sample clamp can fire), sometimes larger
        longest = max(n, k + ny)
        N = rng.pick([longest, longest, longest + 1, longest + rng.randint(1, 50), 10 * longest])
    else:
        N = D.INF
    if as_given and rng.chance(0.5):
        y = [float(rng.pick([0, 1])) for _ in y]
        y[rng.randrange(len(y))] = rng.pick([0.5, 0.25, 1.0])
    return {"cfg": cfg, "x": x, "k": k, "y": y, "N": N, "as_given": as_given, "shared_buffer": rng.chance(0.3)}


def _arr(case, seq):
    """the sample as the caller would hand it over: Python numbers (whole values as ints) or a float array"""
    if case.get("as_given"):
        return np.array([int(v) if float(v).is_integer() else float(v) for v in seq])
    return np.array(seq, dtype=float)


def _call(out, tst, x, case=None):
    import warnings
    try:
        if case is not None and case.get("as_given"):
            with warnings.catch_warnings():
                warnings.simplefilter("ignore")
                with np.errstate(all="ignore"):
                    p, h = tst.test(_arr(case, x))
            return float(p), np.asarray(h, dtype=float)
        return D.call_test(tst, x)
    except Exception as e:
        out.raised("test", e)
        out.probe("call raised")
        return None


def _aux(out, fn, x, case=None):
    import warnings
    try:
        with warnings.catch_warnings():
            warnings.simplefilter("ignore")
            with np.errstate(all="ignore"):
                v = fn(_arr(case or {}, x))
        v = np.asarray(v, dtype=float)
        if v.ndim == 0:
            v = np.full(len(x), float(v))
        return v
    except Exception as e:
        out.raised("estim/bet", e)
        out.probe("call raised")
        return None


def execute(case):
    ns = R.load()
    out = Outcome()
    cfg, x, k, y, N = case["cfg"], case["x"], case["k"], case["y"], case["N"]
    tst = D.make_test(ns, cfg, N)
    name = D.combo_name(cfg)
    path = f"{name}/{cfg['mode']}"
    n = len(x)
    fork = x[:k] + y
    trunc = x[:k]
    out.shape(f"{name} {cfg['mode']} ro={cfg['random_order']} k={'1' if k == 1 else ('n-1' if k == n - 1 else 'mid')}")
    if k == 1:
        out.probe("cut at 1")
    if k == n - 1:
        out.probe("cut at n-1")
    out.units["draws"] += n + len(fork) + k
    out.units["forks"] += 1
    # probes on the null mean before the cut
    if N != D.INF:
        S = 0.0
        for j in range(k):
            m = (N * cfg["t"] - S) / (N - j)
            if m == 0:
                out.probe("null mean hit 0 before cut")
            if m > cfg["u"]:
                out.probe("null mean > u before cut")
            if m < 0:
                out.probe("null mean negative before cut")
            S += x[j]
        if sum(x) > N * cfg["t"] or sum(trunc) > N * cfg["t"]:
            out.probe("final-sample clamp fired (total > N t)")
    if case.get("as_given"):
        out.probe("whole-number sample handed over as ints")
    if n > 4096:
        out.probe("sample longer than 4096 draws")
    # what the estimator / bettor says about x before anything else has been evaluated (compared again at the end)
    first_aux = {}
    for label, fn, used in (("estim", tst.estim, cfg["test"] == "ALPHA_MART"), ("bet", tst.bet, cfg["test"] == "BETTING_MART")):
        if used:
            first_aux[label] = _aux(out, fn, x, case)
    a = _call(out, tst, x, case)
    b = _call(out, tst, fork, case)
    c = _call(out, tst, trunc, case)
    # the same draws looked at again in the caller's own buffer (an audit in rounds evaluates views draws[:n])
    if case.get("shared_buffer") and a is not None and c is not None and not case.get("as_given"):
        import warnings
        out.probe("rounds evaluated on views of one buffer")
        buf = np.array(x, dtype=float)
        keep = buf.copy()
        try:
            with warnings.catch_warnings():
                warnings.simplefilter("ignore")
                with np.errstate(all="ignore"):
                    p1, h1 = tst.test(buf[:k])
                    p2, h2 = tst.test(buf)
            h1 = np.asarray(h1, dtype=float)
            h2 = np.asarray(h2, dtype=float)
            if len(h1) == len(c[1]) and any(not tight(u_, v_) for u_, v_ in zip(h1, c[1])):
                out.violate("C05.b", path + "/shared-buffer", f"the first {k} draws evaluated in the caller's buffer give {h1[:4]}, "
                                                             f"on a fresh copy {c[1][:4]} (N={N})")
            elif len(h2) == len(a[1]) and any(not tight(u_, v_) for u_, v_ in zip(h2, a[1])):
                out.violate("C05.b", path + "/shared-buffer",
                            f"after the first {k} draws were evaluated, the history of all {n} draws in the same buffer is "
                            f"{h2[:4]}..., on a fresh copy {a[1][:4]}... (N={N}); buffer changed: {not np.array_equal(buf, keep)}")
            # the caller refills the same array with another sample (a pre-allocated buffer) and evaluates it again
            z = (fork + x[::-1])[:n]
            if z != x:
                buf[:] = np.array(z, dtype=float)
                with warnings.catch_warnings():
                    warnings.simplefilter("ignore")
                    with np.errstate(all="ignore"):
                        p3, h3 = tst.test(buf)
                h3 = np.asarray(h3, dtype=float)
                fresh = _call(out, tst, z, case)
                out.probe("buffer refilled in place with another sample and evaluated again")
                if fresh is not None and len(h3) == len(fresh[1]) and any(not tight(u_, v_) for u_, v_ in zip(h3, fresh[1])):
                    out.violate("C05.b", path + "/refilled-buffer",
                                f"a buffer refilled in place with {z[:4]}... gives the history {h3[:4]}...; the same sample in a fresh "
                                f"array gives {fresh[1][:4]}... (N={N})")
        except Exception as e:
            out.raised("test(view)", e)
    if a is not None:
        out.ev("hist", [float(v).hex() if not math.isnan(v) else "nan" for v in a[1]])
        if any(v < 1 for v in a[1][:k] if not math.isnan(v)) and y[0] != x[k]:
            out.nontrivial = True
    # C05.a  same past, different futures
    if a is not None and b is not None:
        ha, hb = a[1], b[1]
        if len(ha) != n or len(hb) != len(fork):
            pass  # length is C11's business
        else:
            for j in range(k):
                if not tight(ha[j], hb[j]):
                    out.violate("C05.a", path, f"entry {j + 1} of the history is {ha[j]!r} with future {x[k:][:4]} but "
                                               f"{hb[j]!r} with future {y[:4]} (cut after {k} draws, N={N})")
                    break
    # C05.b  truncation
    if a is not None and c is not None and len(a[1]) == n and len(c[1]) == k:
        ha, hc = a[1], c[1]
        for j in range(k - 1):
            if not tight(ha[j], hc[j]):
                out.violate("C05.b", path, f"truncating to {k} draws changed entry {j + 1} from {ha[j]!r} to {hc[j]!r} (N={N})")
                break
        fa, fc = float(ha[k - 1]), float(hc[k - 1])
        if math.isnan(fa) or math.isnan(fc):
            ok = (math.isnan(fa) and math.isnan(fc)) or fc == 0
        else:
            ok = fc <= fa * (1 + 1e-12) + 1e-15
        if not ok:
            out.violate("C05.b", path + "/last", f"truncating to {k} draws raised entry {k} from {fa!r} to {fc!r} (N={N})")
        elif not tight(fa, fc):
            out.probe("truncation lowered the k-th entry")
            # ... which is allowed only when the observed total already exceeds what the null allows
            if N == D.INF or not (sum(trunc) > N * cfg["t"]):
                out.violate("C05.b", path + "/lowered-without-cause",
                            f"truncating to {k} draws lowered entry {k} from {fa!r} to {fc!r} although the total {sum(trunc)} does "
                            f"not exceed N*t = {N if N == D.INF else N * cfg['t']}")
    # C05.c for the generalised SPRT: its alternative is internal, but it can be read off the reported history.  With the
    # same k draws behind them, the factor applied to draw k+1 is (x eta/m + (u-x)(u-eta)/(u-m))/u; solving for eta under
    # the two futures must give the same alternative.
    if (cfg["test"] == "WALD_SPRT" and N != D.INF and a is not None and b is not None and k >= 1
            and len(a[1]) > k and len(b[1]) > k and x[k] != y[0]):
        u_, t_ = cfg["u"], cfg["t"]
        m = (N * t_ - sum(x[:k])) / (N - k)
        pa0, pa1, pb1 = float(a[1][k - 1]), float(a[1][k]), float(b[1][k])
        if 0 < m < u_ and all(0 < v < 1 for v in (pa0, pa1, pb1)):
            etas = []
            for xv, p1 in ((x[k], pa1), (y[0], pb1)):
                den = xv / m - (u_ - xv) / (u_ - m)
                if abs(den) < 1e-6:
                    etas = []
                    break
                factor = pa0 / p1
                etas.append((factor * u_ - (u_ - xv) * u_ / (u_ - m)) / den)
            if len(etas) == 2:
                out.probe("SPRT alternative recovered from two futures")
                if abs(etas[0] - etas[1]) > 1e-7 * max(1.0, abs(etas[0])):
                    out.violate("C05.c", f"{name}/{cfg['mode']}/implied-alternative",
                                f"after the same {k} draws the SPRT applies alternative {etas[0]!r} when draw {k + 1} is {x[k]} "
                                f"but {etas[1]!r} when it is {y[0]} (N={N}, null mean {m!r})")
    # the same for the ALPHA martingale (same factor, alternative eta_j) and for the betting martingale (factor
    # 1 + lambda (x - m): the implied bet is (factor - 1)/(x - m)), whatever estimator / bettor is plugged in
    if (cfg["test"] in ("ALPHA_MART", "BETTING_MART") and a is not None and b is not None and k >= 1
            and len(a[1]) > k and len(b[1]) > k and x[k] != y[0]):
        u_, t_ = cfg["u"], cfg["t"]
        m = (N * t_ - sum(x[:k])) / (N - k) if N != D.INF else t_
        pa0, pa1, pb1 = float(a[1][k - 1]), float(a[1][k]), float(b[1][k])
        if 0 < m < u_ and all(0 < v < 1 for v in (pa0, pa1, pb1)):
            vals = []
            for xv, p1 in ((x[k], pa1), (y[0], pb1)):
                factor = pa0 / p1
                if cfg["test"] == "ALPHA_MART":
                    den = xv / m - (u_ - xv) / (u_ - m)
                    if abs(den) < 1e-6:
                        vals = []
                        break
                    vals.append((factor * u_ - (u_ - xv) * u_ / (u_ - m)) / den)
                else:
                    if abs(xv - m) < 1e-6:
                        vals = []
                        break
                    vals.append((factor - 1) / (xv - m))
            if len(vals) == 2:
                what = "alternative" if cfg["test"] == "ALPHA_MART" else "bet"
                out.probe(f"{what} recovered from two futures")
                if abs(vals[0] - vals[1]) > 1e-7 * max(1.0, abs(vals[0])):
                    out.violate("C05.c", f"{name}/{cfg['mode']}/implied-{what}",
                                f"after the same {k} draws the test applies {what} {vals[0]!r} when draw {k + 1} is {x[k]} "
                                f"but {vals[1]!r} when it is {y[0]} (N={N}, null mean {m!r})")
    # C05.c  alternative / bet applied to draw j ignores draws j, j+1, ...
    for label, fn, used in (("estim", tst.estim, cfg["test"] == "ALPHA_MART"),
                            ("bet", tst.bet, cfg["test"] == "BETTING_MART")):
        if not used:
            continue
        ea = _aux(out, fn, x, case)
        eb = _aux(out, fn, fork, case)
        if ea is None or eb is None:
            continue
        out.ev(label, [float(v).hex() if not math.isnan(v) else "nan" for v in ea[: k + 1]])
        for j in range(min(k + 1, len(ea), len(eb))):
            if not tight(ea[j], eb[j]):
                out.violate("C05.c", f"{name}/{cfg['mode']}/{label}",
                            f"{label} for draw {j + 1} is {ea[j]!r} with future {x[k:][:4]} but {eb[j]!r} with future "
                            f"{y[:4]} (the first {k} draws are identical)")
                break
        # ... and on nothing else: not on what this (or any other) test object evaluated in the meantime.  Evaluate another
        # sample of the same length, then ask about x again.
        z = (fork + x[::-1])[:n]
        if z != x and first_aux.get(label) is not None:
            _call(out, tst, z, case)
            again = _aux(out, fn, x, case)
            out.probe("estimator / bettor asked again after another sample of the same length was tested")
            if again is not None and len(again) == len(first_aux[label]):
                for j in range(len(again)):
                    if not tight(again[j], first_aux[label][j]):
                        out.violate("C05.c", f"{name}/{cfg['mode']}/{label}/depends-on-earlier-calls",
                                    f"{label} for draw {j + 1} of the same sample was {first_aux[label][j]!r} when first asked and "
                                    f"{again[j]!r} after another sample of the same length had been tested")
                        break
    # the same sample evaluated again after all of the above gives the same history
    if a is not None and n <= 4096:
        a2 = _call(out, tst, x, case)
        if a2 is not None and len(a2[1]) == len(a[1]) and any(not tight(u_, v_) for u_, v_ in zip(a[1], a2[1])):
            out.violate("C05.b", path + "/depends-on-earlier-calls", f"the same {n} draws evaluated again after other samples give "
                                                                     f"{a2[1][:4]}..., at first {a[1][:4]}... (N={N})")
    return out


def reducers(case):
    x, k, y = case["x"], case["k"], case["y"]
    if "u_init" in case["cfg"]:
        c = copy.deepcopy(case)
        del c["cfg"]["u_init"]
        yield c
    # shorten the futures
    if len(y) > 1:
        c = copy.deepcopy(case)
        c["y"] = y[:1]
        yield c
        c = copy.deepcopy(case)
        c["y"] = y[: len(y) // 2]
        yield c
    if len(x) > k + 1:
        c = copy.deepcopy(case)
        c["x"] = x[: k + 1]
        yield c
    # drop a draw before the cut
    for i in range(k):
        if k > 1:
            c = copy.deepcopy(case)
            del c["x"][i]
            c["k"] = k - 1
            yield c
    for i, v in enumerate(x):
        if v != 0:
            c = copy.deepcopy(case)
            c["x"][i] = 0.0
            yield c
    if case["N"] != D.INF:
        longest = max(len(x), k + len(y))
        if case["N"] > longest:
            c = copy.deepcopy(case)
            c["N"] = longest
            yield c
    for flag in ("shared_buffer", "as_given"):
        if case.get(flag):
            c = copy.deepcopy(case)
            c[flag] = False
            yield c
    kw = case["cfg"]["kwargs"]
    for key in list(kw):
        if key in ("eta", "lam", "g"):
            continue
        c = copy.deepcopy(case)
        del c["cfg"]["kwargs"][key]
        yield c
