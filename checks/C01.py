"""C01 - risk limit: reported p-values are sequentially valid under every null population.

DrawSim: an urn holds a null population (mean <= t), the scheduler decides the draw order, the real
test is asked for its p-value.  The schedule *is* the draw order.

  exact-finite  all distinct orderings of a small population (equiprobable) -> exact law of the
                smallest number the auditor sees; must be super-uniform at every attained value
  exact-iid     all k**n sequences from a finite-support law with dyadic weights -> exact law
  sampled       R seeded orderings / IID sequences of a larger population; binomial bound at 1e-12
"""
import copy
import math
import random

import numpy as np
from scipy import stats

from auditsim import drawsim as D
from auditsim import repo as R
from auditsim.log import Outcome

PROP = "C01"
TIERS = {
    "quick": {"runs": 6000, "chunk": 20, "cap": 3000, "Nmax": 120, "R": 1500, "p_sampled": 0.1, "deep": [(27, 3)]},
    "thorough": {"budget_s": 1500, "chunk": 20, "cap": 6000, "Nmax": 400, "R": 12000, "p_sampled": 0.12, "deep": [(27, 3), (36, 4)]},
}
RULE = ("one run = one (test, estimator/bet, parameters) configuration from the documented ranges and one null "
        "population (dyadic grid, mean <= t, half with mean exactly t) or null law; exact kinds enumerate every "
        "distinct draw order (or IID sequence) of it, the sampled kind draws R seeded orders; non-trivial = the "
        "statistic moved (some reported value < 1); distinct = distinct event-log digest")
ASSUMPTIONS = [
    "populations, t, g live on dyadic grids so that sums and N*t are exact (float knife-edges at sum == N*t are outside the check)",
    "a reported NaN is not '<= alpha' for any alpha (NaN/ill-formed values belong to C11, not applicable here)",
    "a call that raises reports nothing and contributes no value",
    "sampled kind: alarm only above the 1-1e-12 quantile of Binomial(R, alpha); false-alarm probability < 1e-8 per invocation",
    "tolerance on the exact comparison P(M<=v) <= v: relative 1e-9 + absolute 1e-12 (float rounding of v)",
]
COMPONENTS = {
    "real": ["NonnegMean.alpha_mart", "betting_mart", "kaplan_kolmogorov", "kaplan_markov", "kaplan_wald", "wald_sprt",
             "fixed_alternative_mean", "shrink_trunc", "optimal_comparison", "fixed_bet", "agrapa", "sjm"],
    "stub": ["urn / null population", "draw-order scheduler"],
}
PROBES = ["null mean hit 0", "null mean > u", "alternative clipped at u", "test raised", "NaN reported",
          "mean exactly t", "P(M<=v) == v attained (tight)", "some ordering rejects at 0.05", "audit-like urn (N > 9)",
          "rounds on one test object and one buffer", "whole-number sample handed over as integers",
          "test object re-configured by attribute assignment after serving another election"]
# (the probe "anticipation probe fired -> deep enumeration" must stay at zero on a correct tree; it is not listed)
LEVELS = [0.001, 0.01, 0.05, 0.1, 0.2, 0.5]
_bcache = {}


def binom_bound(Rn, a):
    """smallest k with P(Binomial(R,a) > k) <= 1e-12"""
    key = (Rn, a)
    if key not in _bcache:
        k = int(stats.binom.isf(1e-12, Rn, a))
        while stats.binom.sf(k, Rn, a) > 1e-12:
            k += 1
        _bcache[key] = k
    return _bcache[key]


# --------------------------------------------------------------------------- generation
def generate(rng, tier):
    cfg_t = TIERS[tier]
    r = rng.random()
    if r < cfg_t["p_sampled"]:
        kind = "sampled"
    elif r < cfg_t["p_sampled"] + 0.5:
        kind = "exact-finite"
    else:
        kind = "exact-iid"
    mode = "iid" if kind == "exact-iid" else ("finite" if kind == "exact-finite" else rng.pick(["finite", "iid"]))
    cfg = D.gen_config(rng, mode=mode)
    u, t = cfg["u"], cfg["t"]
    case = {"kind": kind, "cfg": cfg}
    adaptive = cfg.get("estim") == "shrink_trunc" or cfg.get("bet") == "agrapa"
    if adaptive and kind != "exact-iid":
        # rules that learn from the sample are where a one-draw peek hides: give the learning something to use
        if cfg.get("estim") == "shrink_trunc" and rng.chance(0.6):
            cfg["kwargs"]["f"] = rng.pick([0.05, 0.1, 0.5, 1.0, 3.0])
            cfg["kwargs"]["d"] = rng.pick([0.5, 1, 10, 100])
    if kind == "exact-finite" and rng.chance(0.75 if adaptive else 0.35):
        # audit-like urn: almost every value equal and just above t (an accurate CVR), a few small ones
        # (overstatements), mean as close to t as the grid allows - larger N, still few distinct orderings
        import math as _m
        q = 64
        for _ in range(60):
            if rng.chance(0.5):
                N, k = rng.pick([(27, 3), (18, 2), (20, 2), (24, 3), (36, 2), (40, 1), (16, 4), (9, 1), (12, 3)])
            else:
                k = rng.randint(1, 4)
                N = rng.randint(k + 1, 44) if rng.chance(0.4) else rng.randint(min(44, 12 + 4 * (4 - k)), 44)
            if _m.comb(N, k) > cfg_t["cap"]:
                continue
            lo = rng.pick([0, 0, 0, int(t * q) // 2])
            budget = int(_m.floor(N * t * q + 1e-9)) - k * lo
            hi = min(int(_m.floor(u * q + 1e-12)), budget // (N - k))
            if hi <= lo:
                continue
            if rng.chance(0.3):
                hi = max(lo + 1, hi - rng.randint(0, 3))
            pop = [hi / q] * (N - k) + [lo / q] * k
            rng.shuffle(pop)
            break
        else:
            N = 6
            pop, _e = D.gen_null_population(rng, N, u, t, bits=6, shape="binary")
        case["shape"] = "audit-like"
        case["deep"] = [list(x) for x in cfg_t["deep"]]
        case["pop"] = pop
        case["N"] = N
        ls = {N}
        for _ in range(2):
            ls.add(rng.randint(max(1, N // 2), N))
        case["lengths"] = sorted(ls)
    elif kind == "exact-finite":
        for _ in range(40):
            N = rng.randint(1, 9)
            pop, exact = D.gen_null_population(rng, N, u, t, bits=6)
            if D.n_orderings(pop) <= cfg_t["cap"]:
                break
        else:
            N = 6
            pop, exact = D.gen_null_population(rng, N, u, t, bits=6, shape="binary")
        case["pop"] = pop
        case["N"] = N
        ls = {N}
        for _ in range(2):
            ls.add(rng.randint(1, N))
        case["lengths"] = sorted(ls)
    if kind == "exact-finite":
        # an audit in rounds: one test object per audit, p-values asked for after n1 < n2 < ... draws on views of
        # one growing buffer.  Shared state between the calls (attributes written by a call, padding applied in
        # place) can make a later round's value depend on what an earlier round looked at.
        case["rounds_mode"] = bool(D.n_orderings(case["pop"]) <= 700 and rng.chance(0.3))
        # ... and the object may have served a larger population before (its N re-assigned, as user code does when a
        # card bound is revised): what it computed then must not leak into this audit
        case["object_used_before"] = bool(case["rounds_mode"] and rng.chance(0.5))
        if case["rounds_mode"] and len(case["lengths"]) < 2 and case["N"] >= 2:
            case["lengths"] = sorted(set(case["lengths"]) | {rng.randint(1, case["N"] - 1)})
        # ... or another election altogether (other bound, null mean and tuning), then re-configured by attribute
        # assignment, the way the audit code itself installs u
        case["reconfigured"] = bool(case["object_used_before"] and rng.chance(0.5))
    if kind == "exact-iid":
        k = rng.randint(1, 3)
        for _ in range(200):
            q = 64
            umax = int(math.floor(u * q + 1e-12))
            atoms = sorted(set(rng.pick([0, umax, umax // 2, rng.randint(0, umax)]) for _ in range(k)))
            w = [rng.randint(1, 8) for _ in atoms]
            # dyadic probabilities: normalise to a power of two by padding the first atom
            tot = sum(w)
            p2 = 1
            while p2 < tot:
                p2 *= 2
            w[0] += p2 - tot
            mean = sum(a * ww for a, ww in zip(atoms, w)) / (q * p2)
            if mean <= t:
                break
        else:
            atoms, w, p2, q = [0], [1], 1, 64
        if u >= 1 and t < 1 and rng.chance(0.25):
            # 0/1 data (a ballot-polling assorter): P(1) = j/8 <= t
            j = rng.randint(0, int(t * 8))
            atoms, w, p2 = ([0, q], [8 - j, j], 8) if j else ([0], [1], 1)
        case["law"] = {"atoms": [a / q for a in atoms], "weights": w, "denominator": p2}
        n = rng.randint(1, 7 if len(atoms) <= 2 else 6)
        case["n"] = n
        # rounds on views of one buffer (see exact-finite); only the longest round's lengths matter for the law
        case["rounds_mode"] = bool(n >= 2 and rng.chance(0.3))
        if case["rounds_mode"]:
            case["lengths"] = sorted({rng.randint(1, n - 1), n})
    elif kind == "sampled":
        N = rng.randint(10, cfg_t["Nmax"])
        if mode == "finite":
            pop, exact = D.gen_null_population(rng, N, u, t, bits=6)
            case["pop"] = pop
            case["N"] = N
            case["lengths"] = sorted({N, rng.randint(2, N)})
        else:
            q = 64
            umax = int(math.floor(u * q + 1e-12))
            for _ in range(200):
                atoms = sorted(set(rng.pick([0, umax, umax // 2, rng.randint(0, umax)]) for _ in range(rng.randint(1, 4))))
                w = [rng.randint(1, 8) for _ in atoms]
                mean = sum(a * ww for a, ww in zip(atoms, w)) / (q * sum(w))
                if mean <= t:
                    break
            else:
                atoms, w = [0], [1]
            case["law"] = {"atoms": [a / q for a in atoms], "weights": w, "denominator": sum(w)}
            case["n"] = N
        case["R"] = cfg_t["R"]
        case["order_seed"] = rng.getrandbits(48)
    # whole-number data (0/1 polling values, ...) are handed over as integers in half of the cases where that is possible
    case["as_ints"] = rng.chance(0.5)
    return case


# --------------------------------------------------------------------------- execution
def _observe(out, tst, x, stats_, raw=False):
    try:
        if stats_.get("ints") and len(x) and all(float(v).is_integer() for v in x):
            x = np.array([int(v) for v in x])
            raw = True
            stats_["ints_used"] = True
        if raw:  # hand the caller's own array (a view) to the test, as an audit in rounds does
            import warnings
            with warnings.catch_warnings():
                warnings.simplefilter("ignore")
                with np.errstate(all="ignore"):
                    p, h = tst.test(x)
            p, h = float(p), np.asarray(h, dtype=float)
        else:
            p, h = D.call_test(tst, x)
    except Exception as e:
        out.raised("test", e)
        out.probe("test raised")
        stats_["raised"] += 1
        return None
    m, nnan = D.smallest_seen(p, h)
    if nnan:
        out.probe("NaN reported")
    return m


def _check_exact(out, dist, total, cfg, mode, label, suffix=""):
    path = f"{D.combo_name(cfg)}/{mode}{suffix}"
    if any(v <= 0 for v in dist):
        w = sum(wt for v, wt in dist.items() if v <= 0)
        out.violate("C01.a1" if mode == "finite" else "C01.b1", path,
                    f"{label}: a non-positive 'p-value' ({min(dist)}) is reported under the null with probability "
                    f"{w / total:.4g}; it is <= alpha for every alpha")
        return
    bad = D.superuniform_violations(dist, total)
    if bad:
        v, pr = max(bad, key=lambda b: b[1] - b[0])
        out.violate("C01.a2" if mode == "finite" else "C01.b2", path,
                    f"{label}: P(smallest reported value <= {v:.6g}) = {pr:.6g} > {v:.6g} under the null "
                    f"(exact over {total} equiprobable units)")
    # tightness probe
    acc = 0
    for v in sorted(dist):
        acc += dist[v]
        if v < 1 and abs(acc / total - v) <= 1e-9:
            out.probe("P(M<=v) == v attained (tight)")
            break


def execute(case):
    ns = R.load()
    out = Outcome()
    cfg = case["cfg"]
    kind = case["kind"]
    mode = cfg["mode"]
    st = {"raised": 0, "ints": bool(case.get("as_ints"))}
    out.shape(f"{kind} {D.combo_name(cfg)} ro={cfg['random_order']}")
    if kind == "exact-finite":
        pop = case["pop"]
        N = case["N"]
        tst = D.make_test(ns, cfg, N)
        if st["ints"] and all(float(v).is_integer() for v in pop):
            out.probe("whole-number sample handed over as integers")
        orders, total = D.distinct_orderings(pop, 10 ** 6)
        if abs(sum(pop) - N * cfg["t"]) == 0:
            out.probe("mean exactly t")
        moved = False
        if case.get("rounds_mode"):
            out.probe("rounds on one test object and one buffer")
            lens = sorted(case["lengths"])
            dists = {n: {} for n in lens}
            earlier = sorted(pop)
            for o in orders:
                if case.get("object_used_before") and case.get("reconfigured"):
                    cfg_a = copy.deepcopy(cfg)
                    cfg_a.pop("u_init", None)
                    cfg_a["u"] = cfg["u"] / 2  # the other election lives on half the scale: its largest legal bet is twice ours
                    cfg_a["t"] = cfg["t"] / 2
                    if "lam" in cfg_a["kwargs"]:
                        cfg_a["kwargs"]["lam"] = 1.0 / cfg_a["u"]
                    if "eta" in cfg_a["kwargs"]:
                        cfg_a["kwargs"]["eta"] = cfg_a["t"] + (cfg_a["u"] - cfg_a["t"]) * 0.75
                    t1 = D.make_test(ns, cfg_a, N + 12)
                    for n in reversed(lens):  # (so that its last call has the length of this audit's first round)
                        _observe(out, t1, np.array([min(v, cfg_a["u"]) for v in earlier[:n]], dtype=float), dict(st, ints=False), raw=True)
                    t1.u, t1.t, t1.N = cfg["u"], cfg["t"], N
                    for k_, v_ in cfg["kwargs"].items():
                        setattr(t1, k_, v_)
                    out.probe("test object re-configured by attribute assignment after serving another election")
                elif case.get("object_used_before"):
                    t1 = D.make_test(ns, cfg, N + 12)
                    for n in lens:
                        _observe(out, t1, np.array(earlier[:n], dtype=float), st, raw=True)
                    t1.N = N
                else:
                    t1 = D.make_test(ns, cfg, N)
                buf = np.array(o, dtype=float)
                for n in lens:
                    m = _observe(out, t1, buf[:n], st, raw=True)
                    out.units["draws"] += n
                    out.units["test_calls"] += 1
                    if m is not None:
                        dists[n][m] = dists[n].get(m, 0) + 1
            for n in lens:
                dist = dists[n]
                out.ev("dist-rounds", [n, sorted((float(v).hex(), w) for v, w in dist.items())])
                if dist:
                    if min(dist) < 1:
                        moved = True
                    _check_exact(out, dist, total, cfg, mode, f"N={N}, round ending after {n} draws (rounds {lens} on one "
                                                              f"test object and buffer), population {pop}", suffix="/rounds")
        for n in ([] if case.get("rounds_mode") else case["lengths"]):
            pref = {}
            for o in orders:
                pref[o[:n]] = pref.get(o[:n], 0) + 1
            dist = {}
            for x, w in pref.items():
                m = _observe(out, tst, x, st)
                out.units["draws"] += n
                out.units["test_calls"] += 1
                if m is None:
                    continue
                dist[m] = dist.get(m, 0) + w
            out.ev("dist", [n, sorted((float(v).hex(), w) for v, w in dist.items())])
            if dist:
                if min(dist) < 1:
                    moved = True
                if any(v <= 0.05 for v in dist):
                    out.probe("some ordering rejects at 0.05")
                _check_exact(out, dist, total, cfg, mode, f"N={N}, sample length {n}, population {pop}")
        out.units["orderings"] += total
        # adaptive search: a rule that lets draw j influence its own bet is where moderate, hard-to-see
        # failures live.  A cheap anticipation probe selects such configurations for deep exact enumeration
        # of audit-like urns; the verdict still comes only from the exact law.
        if case.get("deep") and _anticipates(ns, cfg, N, pop):
            out.probe("anticipation probe fired -> deep enumeration")
            import math as _m
            q = 64
            for (dn, dk) in case["deep"]:
                hi = min(int(_m.floor(cfg["u"] * q + 1e-12)), int(_m.floor(dn * cfg["t"] * q + 1e-9)) // (dn - dk))
                if hi <= 0:
                    continue
                dpop = [hi / q] * (dn - dk) + [0.0] * dk
                dt = D.make_test(ns, cfg, dn)
                ddist = {}
                for o in D.distinct_orderings(dpop, 10 ** 6)[0]:
                    m = _observe(out, dt, o, st)
                    out.units["draws"] += dn
                    out.units["test_calls"] += 1
                    if m is not None:
                        ddist[m] = ddist.get(m, 0) + 1
                out.units["orderings"] += sum(ddist.values())
                out.ev("deep", [dn, dk, hi, len(ddist)])
                if ddist:
                    _check_exact(out, ddist, sum(ddist.values()), cfg, mode, f"deep urn N={dn}: {dn - dk} x {hi / q} + {dk} x 0")
                if out.violations:
                    break
        # second adaptive probe: does a test object (or the caller's buffer) carry something from one round into
        # the next?  If so, enumerate audits in rounds on standard balanced urns; verdict from the exact law only.
        if _carries_state(ns, cfg, N, pop):
            out.probe("carried-state probe fired -> deep rounds enumeration")
            t_, u_ = cfg["t"], cfg["u"]
            urns = []
            if 2 * t_ <= u_:
                urns = [([2 * t_] * 5 + [0.0] * 5, (2, 10)), ([2 * t_] * 4 + [0.0] * 4, (2, 8)), ([2 * t_] * 6 + [0.0] * 6, (3, 12))]
            else:
                for dn in range(4, 13):
                    kk = dn * t_ / u_
                    if abs(kk - round(kk)) < 1e-12 and 0 < round(kk) < dn:
                        urns.append(([u_] * int(round(kk)) + [0.0] * (dn - int(round(kk))), (2, dn)))
                urns = urns[-2:]
            for dpop, lens in urns:
                dn = len(dpop)
                dd = {}
                for o in D.distinct_orderings(dpop, 10 ** 6)[0]:
                    t1 = D.make_test(ns, cfg, dn)
                    buf = np.array(o, dtype=float)
                    m = None
                    for n in lens:
                        m = _observe(out, t1, buf[:n], st, raw=True)
                        out.units["test_calls"] += 1
                    if m is not None:
                        dd[m] = dd.get(m, 0) + 1
                out.ev("deep-rounds", [dn, list(lens), len(dd)])
                if dd:
                    _check_exact(out, dd, sum(dd.values()), cfg, mode,
                                 f"deep urn {dpop}: audit in rounds {list(lens)} on one test object and buffer, value reported "
                                 f"after the last round", suffix="/rounds")
                if out.violations:
                    break
        out.nontrivial = moved
        out.shape(f"N={min(N, 10)} moved={moved} exact={abs(sum(pop) - N * cfg['t']) == 0} {case.get('shape', '')}")
        if case.get("shape") == "audit-like":
            out.probe("audit-like urn (N > 9)")
        _probe_m(out, cfg, pop, N)
    elif kind == "exact-iid":
        law = case["law"]
        n = case["n"]
        tst = D.make_test(ns, cfg, D.INF)
        atoms, w = law["atoms"], law["weights"]
        dist = {}
        total = law["denominator"] ** n
        import itertools
        lens_r = case.get("lengths") if case.get("rounds_mode") else None
        if lens_r:
            out.probe("rounds on one test object and one buffer")
        for seq in itertools.product(range(len(atoms)), repeat=n):
            wt = 1
            for i in seq:
                wt *= w[i]
            x = [atoms[i] for i in seq]
            if lens_r:
                # an audit in rounds: p-values asked for after n1 < n draws on views of one buffer; what counts is
                # the smallest value reported in any round
                buf = np.array(x, dtype=float)
                ms = [_observe(out, tst, buf[:n_], dict(st, ints=False), raw=True) for n_ in lens_r]
                m = None if any(v is None for v in ms) else min(ms)
            else:
                m = _observe(out, tst, x, st)
            out.units["draws"] += n
            out.units["test_calls"] += 1
            if m is None:
                continue
            dist[m] = dist.get(m, 0) + wt
        out.ev("dist", [n, sorted((float(v).hex(), ww) for v, ww in dist.items())])
        moved = bool(dist) and min(dist) < 1
        if dist:
            if any(v <= 0.05 for v in dist):
                out.probe("some ordering rejects at 0.05")
            _check_exact(out, dist, total, cfg, mode, f"IID n={n}, law {law}")
        out.units["orderings"] += len(atoms) ** n
        out.nontrivial = moved
        out.shape(f"n={n} atoms={len(atoms)} moved={moved}")
    else:
        Rn = case["R"]
        prng = random.Random(case["order_seed"])
        counts = {}
        lengths = case.get("lengths") or [case["n"]]
        if mode == "finite":
            pop = list(case["pop"])
            tst = D.make_test(ns, cfg, case["N"])
        else:
            tst = D.make_test(ns, cfg, D.INF)
            atoms, w = case["law"]["atoms"], case["law"]["weights"]
        for n in lengths:
            counts[n] = {a: 0 for a in LEVELS}
            counts[n]["nonpos"] = 0
            counts[n]["min"] = 1.0
        for _r in range(Rn):
            if mode == "finite":
                prng.shuffle(pop)
                x = pop
            else:
                x = prng.choices(atoms, weights=w, k=lengths[-1])
            for n in lengths:
                m = _observe(out, tst, x[:n], st)
                out.units["draws"] += n
                out.units["test_calls"] += 1
                if m is None:
                    continue
                c = counts[n]
                c["min"] = min(c["min"], m)
                if m <= 0:
                    c["nonpos"] += 1
                for a in LEVELS:
                    if m <= a:
                        c[a] += 1
        out.units["orderings"] += Rn
        path = f"{D.combo_name(cfg)}/{mode}"
        for n in lengths:
            c = counts[n]
            out.ev("counts", [n, {str(k): v for k, v in c.items()}])
            if c["min"] < 1:
                out.nontrivial = True
            if c[0.05]:
                out.probe("some ordering rejects at 0.05")
            if c["nonpos"]:
                out.violate("C01.c1", path, f"{c['nonpos']} of {Rn} seeded orders report a non-positive 'p-value' "
                                            f"(min {c['min']}) under the null; sample length {n}")
                continue
            for a in LEVELS:
                if c[a] > binom_bound(Rn, a):
                    out.violate("C01.c2", path,
                                f"{c[a]} of {Rn} seeded orders report a value <= {a} under the null (bound "
                                f"{binom_bound(Rn, a)} at 1e-12); sample length {n}")
                    break
        out.shape(f"N~{lengths[-1] // 50} moved={out.nontrivial}")
        if mode == "finite":
            _probe_m(out, cfg, case["pop"], case["N"])
    return out


def _carries_state(ns, cfg, N, pop):
    """does evaluating a prefix first change what the full sample gives (same object, same buffer)?  probe only"""
    import warnings
    if len(pop) < 3:
        return False
    try:
        x = np.array(sorted(pop, reverse=True), dtype=float)
        x[1], x[-1] = x[-1], x[1]
        with warnings.catch_warnings():
            warnings.simplefilter("ignore")
            with np.errstate(all="ignore"):
                ha = np.asarray(D.make_test(ns, cfg, N).test(x.copy())[1], dtype=float)
                tb = D.make_test(ns, cfg, N)
                buf = x.copy()
                tb.test(buf[:2])
                hb = np.asarray(tb.test(buf)[1], dtype=float)
        if not np.array_equal(buf, x):
            return True
        return len(ha) != len(hb) or any(not (a == b or (math.isnan(a) and math.isnan(b))) for a, b in zip(ha, hb))
    except Exception:
        return False


def _anticipates(ns, cfg, N, pop):
    """does the alternative / bet applied to draw j change when only draw j changes?  (probe only - never a verdict)"""
    import warnings
    if len(pop) < 3:
        return False
    tst = D.make_test(ns, cfg, N)
    fn = tst.estim if cfg["test"] == "ALPHA_MART" else (tst.bet if cfg["test"] == "BETTING_MART" else None)
    if fn is None:
        return False
    x = np.array(sorted(pop, reverse=True), dtype=float)
    try:
        with warnings.catch_warnings():
            warnings.simplefilter("ignore")
            with np.errstate(all="ignore"):
                a = np.asarray(fn(x), dtype=float)
                if a.ndim == 0:
                    return False
                for j in (len(x) - 1, len(x) // 2, 2):
                    y = x.copy()
                    y[j] = 0.0 if x[j] != 0 else cfg["u"]
                    b = np.asarray(fn(y), dtype=float)
                    if not (a[j] == b[j] or (math.isnan(a[j]) and math.isnan(b[j]))):
                        return True
    except Exception:
        return False
    return False


def _probe_m(out, cfg, pop, N):
    """rare-branch probes on the null conditional mean along the stored order"""
    S = 0.0
    t, u = cfg["t"], cfg["u"]
    srt = sorted(pop)
    for order in (srt, srt[::-1]):
        S = 0.0
        for j, x in enumerate(order):
            m = (N * t - S) / (N - j)
            if m == 0:
                out.probe("null mean hit 0")
            if m > u:
                out.probe("null mean > u")
            if cfg.get("estim") in ("fixed_alternative_mean",) or cfg["test"] == "WALD_SPRT":
                eta = cfg["kwargs"].get("eta")
                if eta is not None and (N * eta - S) / (N - j) > u:
                    out.probe("alternative clipped at u")
            S += x


# --------------------------------------------------------------------------- shrinking
def reducers(case):
    kind = case["kind"]
    if "u_init" in case["cfg"]:
        c = copy.deepcopy(case)
        del c["cfg"]["u_init"]
        yield c
    if kind == "exact-finite":
        pop = case["pop"]
        if case.get("rounds_mode"):
            c = copy.deepcopy(case)
            c["rounds_mode"] = False
            yield c
        # drop an element (keeps mean <= t only if the dropped value >= t ... check)
        for i in range(len(pop)):
            if len(pop) <= 1:
                break
            newp = pop[:i] + pop[i + 1:]
            if sum(newp) <= (len(newp)) * case["cfg"]["t"]:
                c = copy.deepcopy(case)
                c["pop"] = newp
                c["N"] = len(newp)
                c["lengths"] = sorted({min(n, len(newp)) for n in case["lengths"]})
                yield c
        for n in case["lengths"]:
            if len(case["lengths"]) > 1:
                c = copy.deepcopy(case)
                c["lengths"] = [n]
                yield c
        # lower a value to 0
        for i, v in enumerate(pop):
            if v > 0:
                c = copy.deepcopy(case)
                c["pop"][i] = 0.0
                yield c
    elif kind == "exact-iid":
        if case["n"] > 1:
            c = copy.deepcopy(case)
            c["n"] -= 1
            yield c
    else:
        if case["R"] > 400:
            c = copy.deepcopy(case)
            c["R"] = case["R"] // 2
            yield c
        if "lengths" in case and len(case["lengths"]) > 1:
            for n in case["lengths"]:
                c = copy.deepcopy(case)
                c["lengths"] = [n]
                yield c
    # parameters back to defaults
    kw = case["cfg"]["kwargs"]
    for k in list(kw):
        if k in ("eta", "lam", "g"):
            continue
        c = copy.deepcopy(case)
        del c["cfg"]["kwargs"][k]
        yield c
