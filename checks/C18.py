"""C18 - merging records for one card loses nothing and keeps its flags meaningful (weak fit).

Channel simulation: the exporter emits a card's contests as one or several records, repeated and
interleaved with other cards' records, with every combination of phantom / pool / tally-pool; the
RAIRE file is written to disk and read back.  Reference: an ordered map."""
import copy
import os
import tempfile

import numpy as np

from auditsim import repo as R
from auditsim import world as W
from auditsim.log import Outcome

PROP = "C18"
TIERS = {
    "quick": {"runs": 20000, "chunk": 500, "max_records": 14},
    "thorough": {"budget_s": 600, "chunk": 500, "max_records": 60},
}
RULE = ("one run = one export stream: records for 1-6 cards fragmented by contest, repeated and interleaved, each with its "
        "own phantom / pool / tally-pool values (merge kind), or a RAIRE file with 1-3 contests (raire kind); "
        "non-trivial = some identifier occurs more than once with overlapping contests or differing flags; distinct = "
        "distinct event-log digest")
ASSUMPTIONS = [
    "the phantom flag in the stream is a Python boolean, a numpy boolean or 0/1; the pool flag a Python or numpy boolean (the statement asks for a true/false value back); tally pools are strings (including the empty string and strings that print like another label), integers (including 0) or None",
    "RAIRE rankings are duplicate-free; the file is written by the simulator exactly in the documented layout (plain joins, or the csv module's quoting when a name contains the delimiter or a quote)",
]
COMPONENTS = {
    "real": ["CVR.merge_cvrs", "CVR.from_raire", "CVR.from_raire_file"],
    "stub": ["exporter (fragmentation, repetition, interleaving)", "file system (per-run scratch directory)"],
}
PROBES = ["tally pool conflict", "later record overrides contest", "phantom and real record merged", "pool flag only on later record",
          "three or more records for one card", "raire multi-contest card", "raire empty ranking", "no duplicates at all",
          "falsy tally pool label", "falsy card identifier", "raire ballot id equals a candidate id",
          "records built with CVR.from_dict", "RAIRE file read twice, first result mutated in between",
          "records share a contest dict (constructor default / one template)",
          "RAIRE file with quoted fields (delimiter / quote inside a name)", "flags as numpy booleans / 0-1 integers",
          "a contest whose identifier is the word 'Contest'"]


def generate(rng, tier):
    cfg = TIERS[tier]
    if rng.chance(0.3):
        ncon = rng.randint(1, 3)
        contests = []
        for j in range(ncon):
            cands = [str(rng.randint(1, 99)) for _ in range(rng.randint(2, 5))]
            cands = sorted(set(cands))
            contests.append({"id": str(300 + j), "cands": cands})
        if rng.chance(0.15):  # an identifier may be any text - also the word the header lines start with
            contests[0]["id"] = "Contest"
        ballots = []
        nb = rng.randint(1, 8)
        if rng.chance(0.4):
            # ballots numbered 1..n in the same name space as the candidates (as real RAIRE files do)
            bids = [str(k + 1) for k in range(nb)]
            for con in contests:
                if rng.chance(0.7):
                    con["cands"] = sorted(set(con["cands"]) | {str(rng.randint(1, nb)) for _ in range(2)})
        else:
            bids = [f"{rng.randint(1, 9)}_{rng.randint(1, 9)}_{k}" for k in range(nb)]
        for _ in range(rng.randint(1, cfg["max_records"])):
            con = rng.pick(contests)
            n = rng.randint(0, len(con["cands"]))
            ballots.append({"contest": con["id"], "id": rng.pick(bids), "ranking": rng.sample(con["cands"], n)})
        case = {"kind": "raire", "contests": contests, "ballots": ballots, "via_file": rng.chance(0.6), "read_twice": rng.chance(0.4)}
        if rng.chance(0.25):
            # identifiers are text: a candidate or a card label may contain the delimiter, a quote or a space; the file
            # is then written with the standard CSV quoting that the documented reader (quotechar '"') understands
            ren = {}
            for con in contests:
                for c in con["cands"]:
                    if c not in ren and rng.chance(0.5):
                        ren[c] = rng.pick([f"Smith, {c}", f'"{c}"', f"O'Neil {c}", f"a,b,{c}", f" {c}x"])
            for con in contests:
                con["cands"] = [ren.get(c, c) for c in con["cands"]]
            for b in ballots:
                b["ranking"] = [ren.get(c, c) for c in b["ranking"]]
            if rng.chance(0.4):
                bren = {i: f"{i}, pct {k}" for k, i in enumerate(bids)}
                for b in ballots:
                    b["id"] = bren[b["id"]]
            case["csv_quoting"] = True
        return case
    ncards = rng.randint(1, 6)
    ids = [f"card{j}" for j in range(ncards)]
    if rng.chance(0.35):  # identifiers need not be truthy: a card numbered 0, an empty label
        ids[0] = rng.pick([0, ""])
        if ncards > 2 and rng.chance(0.3):
            ids[1] = 0 if ids[0] == "" else ""
    cons = [f"K{j}" for j in range(rng.randint(1, 4))]
    pools = [None, None, "p1", "p2", 0, ""]  # a batch index 0 or an empty label is a label, not "no pool"
    if rng.chance(0.3):  # labels of different types that merely print alike are different labels
        pools = [None, None, 3, "3", 0, "0", "", "None"]
    conflict = rng.chance(0.25)
    card_pool = {i: rng.pick(pools) for i in ids}
    recs = []
    for _ in range(rng.randint(1, cfg["max_records"])):
        i = rng.pick(ids)
        votes = {}
        for c in rng.subset(cons, 0.5):
            votes[c] = {f"{c}a": rng.pick([1, 2, True, False, 0]), **({f"{c}b": rng.pick([1, 2, 3])} if rng.chance(0.5) else {})}
        tp = card_pool[i] if rng.chance(0.7) else None
        if conflict and rng.chance(0.2):
            tp = rng.pick([p_ for p_ in pools if p_ is not None] + ["p3"])
        recs.append({"id": i, "votes": votes, "phantom": rng.chance(0.3), "pool": rng.chance(0.3), "tally_pool": tp})
    return {"kind": "merge", "records": recs, "via_from_dict": rng.chance(0.5), "flag_type": rng.pick(["bool", "bool", "numpy", "int"]),
            "omit_defaults": rng.chance(0.5), "shared_dicts": rng.chance(0.5)}


def ref_merge(recs):
    od = {}
    order = []
    for r in recs:
        if r["id"] not in od:
            od[r["id"]] = {"id": r["id"], "votes": dict(r["votes"]), "phantom": bool(r["phantom"]), "pool": bool(r["pool"]),
                           "tally_pool": r["tally_pool"]}
            order.append(r["id"])
        else:
            m = od[r["id"]]
            m["votes"] = {**m["votes"], **r["votes"]}
            m["phantom"] = m["phantom"] and bool(r["phantom"])
            m["pool"] = m["pool"] or bool(r["pool"])
            a, b = m["tally_pool"], r["tally_pool"]
            if a is None:
                m["tally_pool"] = b
            elif b is not None and a != b:
                return None  # conflict: must raise
    return [od[i] for i in order]


def compare(out, got, ref, label):
    ids = [c.id for c in got]
    if ids != [r["id"] for r in ref]:
        out.violate("C18.a", f"{label}/ids", f"merged identifiers {ids}, expected first-appearance order {[r['id'] for r in ref]}")
        return
    for c, r in zip(got, ref):
        if c.votes != r["votes"]:
            out.violate("C18.b", f"{label}/votes", f"card {c.id}: merged votes {c.votes}, expected {r['votes']}")
        if bool(c.phantom) != r["phantom"]:
            out.violate("C18.c", f"{label}/phantom", f"card {c.id}: phantom={c.phantom}, expected {r['phantom']}")
        if not isinstance(c.pool, (bool, np.bool_)):
            out.violate("C18.d", f"{label}/pool-type", f"card {c.id}: pool is a {type(c.pool).__name__}, not a true/false value")
        elif bool(c.pool) != r["pool"]:
            out.violate("C18.d", f"{label}/pool-value", f"card {c.id}: pool={c.pool}, expected {r['pool']}")
        if c.tally_pool != r["tally_pool"]:
            out.violate("C18.e", f"{label}/tally-pool", f"card {c.id}: tally pool {c.tally_pool!r}, expected {r['tally_pool']!r}")


def execute(case):
    ns = R.load()
    out = Outcome()
    out.shape(case["kind"])
    if case["kind"] == "merge":
        recs = case["records"]
        ref = ref_merge(recs)
        ids = [r["id"] for r in recs]
        if len(set(ids)) == len(ids):
            out.probe("no duplicates at all")
        else:
            out.fault("F13 records for one card fragmented / repeated")
        if any(ids.count(i) >= 3 for i in set(ids)):
            out.probe("three or more records for one card")
        seen = {}
        for r in recs:
            if r["id"] in seen:
                p = seen[r["id"]]
                if set(p["votes"]) & set(r["votes"]):
                    out.probe("later record overrides contest")
                if p["phantom"] != r["phantom"]:
                    out.probe("phantom and real record merged")
                if r["pool"] and not p["pool"]:
                    out.probe("pool flag only on later record")
            seen.setdefault(r["id"], r)
        if any(r["id"] in (0, "") for r in recs):
            out.probe("falsy card identifier")
        if ref is None:
            out.probe("tally pool conflict")
        if any(r["tally_pool"] is not None and not r["tally_pool"] for r in recs):
            out.probe("falsy tally pool label")
        out.units["records"] += len(recs)
        if case.get("via_from_dict"):
            # the records arrive as dicts (the documented way to build a CVR list); optional keys holding their
            # default value may simply be absent
            dicts = []
            for r in recs:
                d = {"id": r["id"], "votes": copy.deepcopy(r["votes"]), "phantom": r["phantom"], "pool": r["pool"],
                     "tally_pool": r["tally_pool"]}
                if case.get("omit_defaults"):
                    if d["phantom"] is False:
                        del d["phantom"]
                    if d["pool"] is False:
                        del d["pool"]
                    if d["tally_pool"] is None:
                        del d["tally_pool"]
                dicts.append(d)
            try:
                cvrs = ns.CVR.from_dict(dicts)
                out.probe("records built with CVR.from_dict")
            except Exception as e:
                out.raised("from_dict", e)
                out.violate("C18.a", f"from_dict/raised-{type(e).__name__}", f"CVR.from_dict raised {e!r}")
                return out
        else:
            ft = case.get("flag_type", "bool")
            if ft != "bool":
                out.probe("flags as numpy booleans / 0-1 integers")
            cvrs = W.mk_cvrs(ns, [dict(r, flag_type=ft) for r in recs])
            if case.get("shared_dicts"):
                # records need not own a private contest dict: a record built without the votes argument holds the
                # constructor's default, and records with the same content may have been built from one template
                stale = ns.CVR(id="probe").votes
                if stale:  # (left behind by an earlier run in this process: start clean, the verdicts are per run)
                    stale.clear()
                templates = {}
                cvrs = []
                for r in recs:
                    kw = dict(id=r["id"], phantom=W._flag(r["phantom"], ft), pool=W._flag(r["pool"], "numpy" if ft == "numpy" else "bool"),
                              tally_pool=r["tally_pool"])
                    if not r["votes"]:
                        cvrs.append(ns.CVR(**kw))
                    else:
                        key = repr(sorted((k, sorted(v.items())) for k, v in r["votes"].items()))
                        cvrs.append(ns.CVR(votes=templates.setdefault(key, copy.deepcopy(r["votes"])), **kw))
                out.probe("records share a contest dict (constructor default / one template)")
        inputs_before = [(c.id, copy.deepcopy(c.votes)) for c in cvrs]
        try:
            got = ns.CVR.merge_cvrs(cvrs)
        except Exception as e:
            out.raised("merge_cvrs", e)
            out.ev("merge", "raised")
            if ref is not None:  # (on a conflict any error is a refusal; the statement does not name its type)
                out.violate("C18.e" if isinstance(e, ValueError) else "C18.a",
                            "merge/raised-without-conflict" if isinstance(e, ValueError) else f"merge/raised-{type(e).__name__}",
                            f"merge raised {e!r} although tally pools do not conflict")
            return out
        out.ev("merge", [[c.id, c.votes, bool(c.phantom), type(c.pool).__name__ if not isinstance(c.pool, (bool, np.bool_)) else bool(c.pool),
                          c.tally_pool] for c in got])
        if ref is None:
            out.violate("C18.e", "merge/conflict-accepted", "records of one card carry different tally pools and the merge did not raise")
            return out
        compare(out, got, ref, "merge")
        # records of *other* cards are not part of a card's merge: a record whose identifier occurs once still says
        # what it said
        once = {i for i in ids if ids.count(i) == 1}
        for c, (i, v) in zip(cvrs, inputs_before):
            if i in once and c.votes != v:
                out.violate("C18.b", "merge/bystander-changed", f"record of card {i!r} (not repeated) said {v} before the merge and {c.votes} after")
        if case.get("shared_dicts"):
            fresh = ns.CVR(id="made-after-the-merge")
            if fresh.votes:
                out.violate("C18.b", "merge/later-records-polluted", f"a record created after the merge, without contests, lists {fresh.votes}")
                fresh.votes.clear()
        return out
    # ---- RAIRE channel
    rows = [[str(len(case["contests"]))]]
    for con in case["contests"]:
        rows.append(["Contest", con["id"], str(len(con["cands"]))] + list(con["cands"]))
    for b in case["ballots"]:
        rows.append([b["contest"], b["id"]] + list(b["ranking"]))
    recs = [{"id": b["id"], "votes": {b["contest"]: {c: k + 1 for k, c in enumerate(b["ranking"])}}, "phantom": False,
             "pool": False, "tally_pool": None} for b in case["ballots"]]
    ref = ref_merge(recs)
    ids = [b["id"] for b in case["ballots"]]
    if any(len({b["contest"] for b in case["ballots"] if b["id"] == i}) > 1 for i in set(ids)):
        out.probe("raire multi-contest card")
        out.fault("F13 records for one card fragmented / repeated")
    if any(not b["ranking"] for b in case["ballots"]):
        out.probe("raire empty ranking")
    if any(con["id"] == "Contest" for con in case["contests"]):
        out.probe("a contest whose identifier is the word 'Contest'")
    if any(b["id"] in b["ranking"] for b in case["ballots"]):
        out.probe("raire ballot id equals a candidate id")
    out.units["records"] += len(recs)
    try:
        if case["via_file"]:
            with tempfile.TemporaryDirectory(prefix="c18_") as d:
                p = os.path.join(d, "export.raire")
                with open(p, "w", newline="") as f:
                    if case.get("csv_quoting"):
                        import csv
                        csv.writer(f, delimiter=",", quotechar='"', lineterminator="\n").writerows(rows)
                        out.probe("RAIRE file with quoted fields (delimiter / quote inside a name)")
                    else:
                        for r in rows:
                            f.write(",".join(r) + "\n")
                if case.get("read_twice"):
                    # the same untouched file is read again after the first result was used (ids rewritten in place by
                    # Dominion.raire_to_dominion, flags set, a record appended) - the second reading is the one judged
                    first, _a, _b = ns.CVR.from_raire_file(p)
                    ns.Dominion.raire_to_dominion(first)
                    for c in first:
                        c.pool = True
                        c.tally_pool = "used"
                        c.votes["added-by-caller"] = {}
                    first.append(ns.CVR(id="appended-by-caller", votes={}, phantom=True))
                    out.probe("RAIRE file read twice, first result mutated in between")
                got, _n_read, n_unique = ns.CVR.from_raire_file(p)
            if n_unique != len(got):
                out.violate("C18.f", "raire/unique-count", f"reported {n_unique} distinct identifiers, returned {len(got)} records")
        else:
            got, _n_read = ns.CVR.from_raire(rows)
    except Exception as e:
        out.raised("from_raire", e)
        out.violate("C18.f", f"raire/raised-{type(e).__name__}", f"reading the RAIRE stream raised {e!r}")
        return out
    out.ev("raire", [[c.id, c.votes] for c in got])
    got_ids = [c.id for c in got]
    if got_ids != [r["id"] for r in ref]:
        out.violate("C18.f", "raire/ids", f"cards {got_ids}, expected {[r['id'] for r in ref]} (header lines: {1 + len(case['contests'])})")
        return out
    for c, r in zip(got, ref):
        if c.votes != r["votes"]:
            out.violate("C18.f", "raire/ranks", f"card {c.id}: {c.votes}, expected {r['votes']}")
        if c.phantom or (not isinstance(c.pool, (bool, np.bool_))) or c.pool:
            out.violate("C18.d", "raire/flags", f"card {c.id} read from a RAIRE file has phantom={c.phantom!r}, pool of type {type(c.pool).__name__}")
    return out


def reducers(case):
    key = "records" if case["kind"] == "merge" else "ballots"
    for i in reversed(range(len(case[key]))):
        if len(case[key]) > 1:
            c = copy.deepcopy(case)
            del c[key][i]
            yield c
    for flag in ("via_from_dict", "omit_defaults", "read_twice", "shared_dicts"):
        if case.get(flag):
            c = copy.deepcopy(case)
            c[flag] = False
            yield c
    if case["kind"] == "merge":
        for i, r in enumerate(case["records"]):
            for f in ("phantom", "pool"):
                if r[f]:
                    c = copy.deepcopy(case)
                    c["records"][i][f] = False
                    yield c
            if r["tally_pool"] is not None:
                c = copy.deepcopy(case)
                c["records"][i]["tally_pool"] = None
                yield c
            if r["votes"]:
                c = copy.deepcopy(case)
                c["records"][i]["votes"] = {}
                yield c
    else:
        if len(case["contests"]) > 1:
            used = {b["contest"] for b in case["ballots"]}
            for j, con in enumerate(case["contests"]):
                if con["id"] not in used:
                    c = copy.deepcopy(case)
                    del c["contests"][j]
                    yield c
        for i, b in enumerate(case["ballots"]):
            if b["ranking"]:
                c = copy.deepcopy(case)
                c["ballots"][i]["ranking"] = b["ranking"][:-1]
                yield c
        if case["via_file"]:
            c = copy.deepcopy(case)
            c["via_file"] = False
            yield c
