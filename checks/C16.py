"""C16 - sample-size estimates are first-crossing times on the assumed data.

An estimate is a prediction about a run: "if the cards come out like this, the audit finishes after
n of them".  The simulator builds the world in which exactly that schedule happens (draw order set
through the sample-number seam, transcription faults placed by position), runs the real audit
pipeline on it and compares the predicted completion time with the observed one."""
import copy
import math

import numpy as np
import pandas as pd

from auditsim import repo as R
from auditsim import world as W
from auditsim import drawsim as D
from auditsim.log import Outcome

PROP = "C16"
TIERS = {
    "quick": {"runs": 5000, "chunk": 50, "Nmax": 120},
    "thorough": {"budget_s": 900, "chunk": 50, "Nmax": 400},
}
RULE = ("one run = one staged schedule: (pilot) a periodic pattern of (CVR, manual record) pairs whose first period is the "
        "pilot sample; (rates) accurate cards with one-/two-vote overstatements at the assumed positions; (polling) ballots "
        "in the interleaved order of the reported tallies; (direct) a pilot vector tiled to N for every shipped test; plus "
        "seeded (seed, reps, quantile) for the simulation-based estimate.  non-trivial = the predicted completion time "
        "is strictly between 1 and N; distinct = distinct event-log digest")
ASSUMPTIONS = [
    "one- and two-vote overstatements are placed at positions 0, s, 2s, ... with s = int(1/rate), the library's reading of 'at the assumed rates'",
    "the interleaved order of the tallies is the library's own (the documentation fixes only the counts and the first value); its counts are checked separately (C16.f), and 'interleaved' is read as: at every prefix each value's count is within 5 of its proportional share (the shipped routine stays within 2)",
    "card-level staging uses assorters with upper bound 1 (plurality / approval); super-majority is staged with zero error rates",
    "interleave_values is called with at least one 'big' value (a reported winner has at least one vote)",
]
COMPONENTS = {
    "real": ["NonnegMean.sample_size", "Assertion.find_sample_size", "Contest.find_sample_size", "Audit.find_sample_size",
             "Assertion.interleave_values", "Assertion.make_overstatement", "Assertion.set_all_margins_from_cvrs",
             "CVR.consistent_sampling", "Dominion.sample_from_cvrs", "CVR.prep_comparison_sample", "CVR.prep_polling_sample",
             "Assertion.mvrs_to_data", "Assertion.set_p_values", "NonnegMean tests", "numpy.random.RandomState (seed= seam)"],
    "stub": ["election staged to realise the assumed schedule", "auditors (faults placed by position)", "manifest"],
}
PROBES = ["estimate strictly inside (1, N)", "estimate == N (never crosses)", "estimate == 1", "non-constant pilot",
          "prefix crosses", "two-vote overstatement staged", "one-vote overstatement staged", "pilot shorter than N/2",
          "interleave with zero small", "interleave with zero med", "multi-assertion contest",
          "p-value equals the risk limit exactly", "super-majority contest with assumed error rates",
          "interleaving asked for again after the caller overwrote the first answer", "comparison contest next to ONEAudit contests",
          "estimate asked for again after the assumed error rates were revised", "whole-number pilot handed over as integers",
          "population of more than 1024 cards"]

PAIRS = [("w", "w"), ("w", "blank"), ("w", "l"), ("blank", "w"), ("blank", "blank"), ("blank", "l"), ("l", "w"),
         ("l", "blank"), ("l", "l")]


def _vote(kind, cands):
    w, l = cands[0], cands[1]
    return {"w": {w: 1}, "l": {l: 1}, "blank": {}, "o": ({cands[2]: 1} if len(cands) > 2 else {})}[kind]


def generate(rng, tier):
    cfg = TIERS[tier]
    kind = rng.wpick([("pilot", 4), ("rates", 3), ("polling", 2), ("direct", 3), ("interleave", 1), ("audit", 2)])
    case = {"kind": kind}
    if kind == "interleave":
        case["n"] = [rng.randint(0, rng.pick([3, 20, 200])) for _ in range(2)] + [rng.randint(1, rng.pick([3, 20, 200]))]
        case["vals"] = rng.pick([[0, 0.5, 1], [0.0, 0.5, 2.5], [0.1, 0.2, 0.3]])
        return case
    if kind == "audit":
        ncon = rng.randint(2, 3)
        N = rng.randint(8, min(cfg["Nmax"], 150))
        contests = {}
        votes = {}
        for j in range(ncon):
            cid = f"K{j}"
            ncand = rng.randint(2, 3)
            cands = [f"{cid}c{i}" for i in range(ncand)]
            cs = {"choice_function": W.PLURALITY, "n_winners": 1, "candidates": cands, "winner": [cands[0]],
                  "share_to_win": None, "risk_limit": rng.pick([0.01, 0.05, 0.1, 0.2]), "cards": None,
                  "audit_type": W.COMPARISON, "g": 0.1, "assertion_json": None}
            cs.update(W.gen_test(rng, W.COMPARISON))
            contests[cid] = cs
            pw = rng.pick([0.5, 0.6, 0.8, 0.95])
            votes[cid] = ["w" if rng.chance(pw) else rng.pick(["l", "blank"]) for _ in range(N)]
        oneaudit = rng.chance(0.4)
        if oneaudit:
            mixed = rng.chance(0.4)  # audit type is a per-contest attribute: ONEAudit contests next to comparison contests
            for j, cs in enumerate(contests.values()):
                if not mixed or j == 0 or rng.chance(0.3):
                    cs["audit_type"] = W.ONEAUDIT
        return {"kind": kind, "contests": contests, "votes": votes, "N": N, "first": rng.randint(2, N),
                "oneaudit": oneaudit, "pool_every": rng.pick([0, 2, 3]), "batch": rng.pick([3, 5, 8]),
                "err": [i for i in range(N) if rng.chance(rng.pick([0.0, 0.05]))],
                "rate_1": rng.pick([0, 0.001, 0.05, 0.1]), "rate_2": rng.pick([0, 0, 0.02, 0.05]),
                "second_rates": rng.pick([None, [0, 0], [0.01, 0], [0.2, 0.1]]),
                "reps": rng.pick([None, None, rng.randint(1, 6)]), "quantile": rng.pick([0.5, 0.8]), "sim_seed": rng.getrandbits(31)}
    if kind == "direct":
        dcfg = D.gen_config(rng, mode=rng.pick(["finite", "finite", "iid"]))  # the IID tests (Kaplan-Markov/-Wald) too; N stays finite
        dcfg["random_order"] = True
        N = rng.randint(3, cfg["Nmax"])
        L = rng.randint(1, max(1, min(N - 1, rng.pick([3, 8, 30]))))
        q = 64
        umax = int(math.floor(dcfg["u"] * q + 1e-12))
        hi = rng.chance(0.7)
        x = [(rng.pick([umax, umax, (3 * umax) // 4, umax // 2, rng.randint(0, umax)]) if hi else rng.randint(0, umax)) / q
             for _ in range(L)]
        alpha = rng.pick([0.01, 0.05, 0.1, 0.2, 0.5])
        if rng.chance(0.3) and 2 * dcfg["t"] <= dcfg["u"]:
            # p-values that hit the risk limit exactly: data in {t, 2t}, no padding, a dyadic limit
            x = [rng.pick([dcfg["t"], 2 * dcfg["t"], 2 * dcfg["t"]]) for _ in range(L)]
            alpha = rng.pick([0.5, 0.25, 0.125, 0.0625, 0.03125])
            if "g" in dcfg["kwargs"]:
                dcfg["kwargs"]["g"] = 0
            case["exact_hit"] = True
        if dcfg["u"] >= 1 and rng.chance(0.2):
            # a pilot of whole numbers (0/1 polling values) handed over as integers
            x = [float(rng.pick([0, 1, 1, 1])) for _ in range(L)]
            case["as_ints"] = True
        if rng.chance(0.04):
            N = rng.randint(1030, 2300)  # a contest of a couple of thousand cards
            if rng.chance(0.6):
                # ... whose null total N*t is passed by the tiled pilot exactly at a power-of-two position
                k2 = rng.pick([1024, 1024, 2048])
                tiled = (x * (k2 // len(x) + 1))[:k2]
                lo_, hi_ = sum(tiled[:-1]) / dcfg["t"], sum(tiled) / dcfg["t"]
                cands = [n_ for n_ in range(int(math.ceil(lo_)), int(math.floor(hi_)) + 1) if lo_ <= n_ < hi_ and n_ > k2]
                if cands:
                    N = rng.pick(cands)
        case.update({"cfg": dcfg, "N": N, "x": x, "alpha": alpha,
                     "sims": [{"reps": rng.randint(1, 12), "quantile": rng.pick([0.1, 0.5, 0.8, 0.99]), "seed": rng.getrandbits(31)}
                              for _ in range(2)]})
        return case
    audit_type = W.POLLING if kind == "polling" else rng.pick([W.COMPARISON, W.COMPARISON, W.ONEAUDIT])
    ncand = rng.randint(2, 3)
    cands = [f"c{j}" for j in range(ncand)]
    cs = {"choice_function": rng.pick([W.PLURALITY, W.PLURALITY, W.APPROVAL]), "n_winners": 1, "candidates": cands,
          "winner": [cands[0]], "share_to_win": None, "risk_limit": rng.pick([0.01, 0.05, 0.1, 0.2]), "cards": None,
          "audit_type": audit_type, "g": 0.1, "assertion_json": None}
    cs.update(W.gen_test(rng, audit_type))
    N = rng.randint(6, cfg["Nmax"])
    case.update({"contest": cs, "N": N,
                 "sims": [{"reps": rng.randint(1, 10), "quantile": rng.pick([0.1, 0.5, 0.8, 0.99]), "seed": rng.getrandbits(31)}
                          for _ in range(2)]})
    pw = rng.pick([0.55, 0.7, 0.9])
    if kind == "pilot":
        L = rng.randint(2, max(2, min(N - 1, rng.pick([4, 10, 40]))))
        err = rng.pick([0.0, 0.1, 0.3])
        pattern = []
        for _ in range(L):
            c = "w" if rng.chance(pw) else rng.pick(["l", "blank", "o"] if ncand > 2 else ["l", "blank"])
            m = c
            if rng.chance(err):
                m = rng.pick(["w", "l", "blank"])
            pattern.append([c, m])
        if all(p[0] != "w" for p in pattern):
            pattern[0] = ["w", "w"]
        case["pattern"] = pattern
    elif kind == "rates":
        if rng.chance(0.25):
            # a super-majority contest: the assorter's bound is 1/(2 share), so "0" and the two-vote value differ from plurality's
            cs["choice_function"] = W.SUPERMAJORITY
            cs["share_to_win"] = rng.pick([0.4, 0.55, 0.6])
            cs["sm_direct"] = rng.chance(0.5)
        case["rate_1"] = rng.pick([0, 0, 1 / rng.randint(2, 40), 0.3, 0.15, 0.001])
        case["rate_2"] = rng.pick([0, 0, 0, 1 / rng.randint(3, 60), 0.07])
        if cs["choice_function"] == W.SUPERMAJORITY:
            case["rate_2"] = rng.pick([0, 1 / rng.randint(3, 30), 0.07, 0.2, 0.34])
        case["filler"] = ["w" if rng.chance(pw) else rng.pick(["l", "blank"]) for _ in range(N)]
        case["via"] = rng.pick(["assertion", "contest", "audit"])
    else:  # polling
        nw = rng.randint(1, N)
        nl = rng.randint(0, min(N - nw, max(0, nw - 1)))
        case["tally"] = {"w": nw, "l": nl}
        case["via"] = rng.pick(["assertion", "contest"])
    return case


# --------------------------------------------------------------------------- building blocks
def first_crossing(hist, alpha, N):
    for i, p in enumerate(hist):
        if p <= alpha:
            return i + 1
    return int(N)


def build(ns, case, cvr_votes):
    cs = copy.deepcopy(case["contest"])
    N = len(cvr_votes)
    cs["cards"] = N
    world = {"use_style": cs["audit_type"] != W.POLLING, "max_cards": N, "contests": {"K0": cs},
             "audit_type": cs["audit_type"], "error_rate_1": case.get("rate_1", 0) or 0, "error_rate_2": case.get("rate_2", 0) or 0}
    audit = W.mk_audit(ns, world)
    contests = W.mk_contests(ns, world)
    cvrs = [ns.CVR(id=f"1-1-{i + 1}", votes={"K0": copy.deepcopy(v)}, card_in_batch=i + 1, tally_pool="1-1") for i, v in enumerate(cvr_votes)]
    for i, c in enumerate(cvrs):
        c.sample_num = i  # the draw order is the staged order (the seam the repository's own test uses)
    man = pd.DataFrame([{"Tray #": "1", "Tabulator Number": "1", "Batch Number": "1", "Total Ballots": N, "VBMCart.Cart number": "1"}])
    man["cum_cards"] = man["Total Ballots"].cumsum()
    return world, audit, contests, cvrs, man


def observe(ns, out, contests, cvrs, man, mvr_votes, n, shuffle_seed=7):
    """run the real pipeline on the first n cards of the staged order; returns {assertion key: (data, p_history)}"""
    import random
    con = contests["K0"]
    con.sample_size = n
    with W.quiet():
        idx = ns.CVR.consistent_sampling(cvr_list=cvrs, contests=contests)
        cards, order, cvr_sample, mvr_ph = ns.Dominion.sample_from_cvrs(cvrs, man, idx)
        mvrs = [ns.CVR(id=cvrs[i].id, votes={"K0": copy.deepcopy(mvr_votes[i])}) for i in idx]
        random.Random(shuffle_seed).shuffle(mvrs)
        cvr_sample = list(cvr_sample)
        ns.CVR.prep_comparison_sample(mvrs, cvr_sample, order)
        data = {k: a.mvrs_to_data(mvrs, cvr_sample)[0] for k, a in con.assertions.items()}
        ns.Assertion.set_p_values(contests=contests, mvr_sample=mvrs, cvr_sample=cvr_sample)
    out.units["draws"] += len(idx)
    out.units["rounds"] += 1
    return {k: ([float(x) for x in data[k]], [float(p) for p in a.p_history]) for k, a in con.assertions.items()}, mvrs, cvr_sample


def check_prefix_clause(ns, out, case, asn, d, alpha, N, label):
    """C16.a: a prefix that already crosses at k pins every simulation-based estimate to k"""
    with W.quiet():
        try:
            p, h = asn.test.test(np.array(d))
        except Exception as e:
            out.raised("test", e)
            return
    k = first_crossing(h, alpha, len(d) + 1)
    if k > len(d):
        return
    out.probe("prefix crosses")
    # crossing produced only by the final-sample clamp (prefix total > N t at its last card)
    clamp = (k == len(d) and math.isfinite(asn.test.N) and float(np.sum(d)) > asn.test.N * asn.test.t)
    for sim in case["sims"]:
        try:
            with W.quiet():
                # (the flag is documented as a bool; a numpy comparison result or 1 is as true as True)
                flag = [True, np.True_, 1][int(sim["seed"]) % 3]
                est = asn.find_sample_size(data=np.array(d), prefix=flag, reps=sim["reps"], quantile=sim["quantile"], seed=sim["seed"])
                est2 = asn.find_sample_size(data=np.array(d), prefix=flag, reps=sim["reps"], quantile=sim["quantile"], seed=sim["seed"])
        except Exception as e:
            out.raised("find_sample_size(prefix)", e)
            out.violate("C16.a", f"raised-{type(e).__name__}", f"{label}: simulation-based estimate raised {e!r}")
            continue
        out.ev("prefix", [k, int(est), sim])
        if est != k:
            out.violate("C16.a", f"prefix{'-clamp' if clamp else ''}/{asn.contest.audit_type}",
                        f"{label}: the prefix crosses the risk limit at position {k} but the estimate with {sim} is {est}")
        if est2 != est:
            out.violate("C16.a", "seed-not-reproducible", f"{label}: same seed, reps and quantile gave {est} then {est2}")


def execute(case):
    ns = R.load()
    out = Outcome()
    kind = case["kind"]
    out.shape(kind)
    if kind == "interleave":
        ns_, nm, nb = case["n"]
        s, m, b = case["vals"]
        if ns_ == 0:
            out.probe("interleave with zero small")
        if nm == 0:
            out.probe("interleave with zero med")
        try:
            x = ns.Assertion.interleave_values(ns_, nm, nb, small=s, med=m, big=b)
        except Exception as e:
            out.raised("interleave_values", e)
            out.violate("C16.f", f"raised-{type(e).__name__}", f"interleave_values({ns_},{nm},{nb}) raised {e!r}")
            return out
        x = [float(v) for v in x]
        out.ev("interleave", x)
        got = (sum(1 for v in x if v == s), sum(1 for v in x if v == m), sum(1 for v in x if v == b))
        if got != (ns_, nm, nb) or len(x) != ns_ + nm + nb:
            out.violate("C16.f", "counts", f"interleave_values({ns_},{nm},{nb}) returned counts {got}, length {len(x)}")
        if ns_ > 0 and x and x[0] != s:
            out.violate("C16.f", "start", "the interleaving does not start with a small value")
        # "interleaved": each value is spread through the sequence, not bunched - at every prefix the number of each value
        # placed so far stays within a few positions of its proportional share (the shipped routine stays within 2)
        if got == (ns_, nm, nb) and len(x) == ns_ + nm + nb:
            N_ = len(x)
            for val, n_v in ((s, ns_), (m, nm), (b, nb)):
                placed = 0
                for i, v in enumerate(x, start=1):
                    placed += (v == val)
                    if abs(placed - i * n_v / N_) > 5:
                        out.violate("C16.f", "bunched", f"interleave_values({ns_},{nm},{nb}): after {i} positions {placed} values equal to "
                                                        f"{val} have been placed, their share would be {i * n_v / N_:.1f}")
                        break
        # the caller owns what it was given: it may shuffle or overwrite the array; asking again gives a fresh population
        try:
            x1 = ns.Assertion.interleave_values(ns_, nm, nb, small=s, med=m, big=b)
            x1[:] = x1[::-1].copy()
            x1[: len(x1) // 2] = b
            x2 = [float(v) for v in ns.Assertion.interleave_values(ns_, nm, nb, small=s, med=m, big=b)]
            out.probe("interleaving asked for again after the caller overwrote the first answer")
            if x2 != x:
                out.violate("C16.f", "second-call", f"interleave_values({ns_},{nm},{nb}) asked again after the caller overwrote the first "
                                                    f"answer gives counts {(x2.count(s), x2.count(m), x2.count(b))}, first {x2[:6]} (at first {x[:6]})")
        except Exception as e:
            out.raised("interleave_values(again)", e)
        out.nontrivial = ns_ > 0 and nm > 0
        return out

    if kind == "direct":
        cfg, N, x, alpha = case["cfg"], case["N"], case["x"], case["alpha"]
        tst = D.make_test(ns, cfg, N)
        name = D.combo_name(cfg)
        out.shape(name)
        if len(set(x)) > 1:
            out.probe("non-constant pilot")
        if len(x) < N / 2:
            out.probe("pilot shorter than N/2")
        x_given = np.array(x)
        if case.get("as_ints") and all(float(v).is_integer() for v in x):
            x_given = np.array([int(v) for v in x])
            out.probe("whole-number pilot handed over as integers")
        if N > 1024:
            out.probe("population of more than 1024 cards")
        try:
            with W.quiet():
                est = tst.sample_size(x_given, alpha=alpha, reps=None)
        except Exception as e:
            out.raised("sample_size", e)
            return out
        pop = np.tile(np.array(x), math.ceil(N / len(x)))[:N]
        try:
            p, h = D.call_test(D.make_test(ns, cfg, N), pop)
        except Exception as e:
            out.raised("test(tiled)", e)
            return out
        obs = first_crossing(h, alpha, N)
        if any(float(v) == alpha for v in h):
            out.probe("p-value equals the risk limit exactly")
        out.units["draws"] += N
        out.ev("direct", [int(est), obs])
        _probe_est(out, est, N)
        if est != obs:
            out.violate("C16.b", f"direct/{name}", f"pilot {x[:8]} (length {len(x)}), N={N}, alpha={alpha}: estimate {est}, but the "
                                                   f"test run on the pilot values tiled to N first reaches the risk limit at {obs}")
        # prefix clause on the bare test
        try:
            hh = D.call_test(D.make_test(ns, cfg, N), np.array(x))[1]
        except Exception as e:
            out.raised("test(pilot)", e)
            return out
        k = first_crossing(hh, alpha, len(x) + 1)
        if k <= len(x):
            out.probe("prefix crosses")
            for sim in case["sims"]:
                try:
                    with W.quiet():
                        e1 = tst.sample_size(np.array(x), alpha=alpha, reps=sim["reps"], prefix=[True, np.True_, 1][int(sim["seed"]) % 3],
                                             quantile=sim["quantile"], seed=sim["seed"])
                except Exception as e:
                    out.raised("sample_size(prefix)", e)
                    continue
                if e1 != k:
                    clamp = (k == len(x) and float(np.sum(x)) > N * cfg["t"])
                    out.violate("C16.a", f"prefix{'-clamp' if clamp else ''}/direct/{name}",
                                f"pilot {x[:6]} (N={N}, t={cfg['t']}) crosses at {k}; estimate with {sim} is {e1}")
        return out

    if kind == "audit":
        return execute_audit(ns, out, case)

    cs = case["contest"]
    cands = cs["candidates"]
    N = case["N"]
    alpha = cs["risk_limit"]
    if kind == "pilot":
        pattern = case["pattern"]
        L = len(pattern)
        cvr_votes = [_vote(pattern[i % L][0], cands) for i in range(N)]
        mvr_votes = [_vote(pattern[i % L][1], cands) for i in range(N)]
        world, audit, contests, cvrs, man = build(ns, case, cvr_votes)
        with W.quiet():
            ns.Assertion.set_all_margins_from_cvrs(audit=audit, contests=contests, cvr_list=cvrs)
        con = contests["K0"]
        if len(con.assertions) > 1:
            out.probe("multi-assertion contest")
        if any(a.margin <= 0 for a in con.assertions.values()):
            out.ev("skip", "non-positive margin")
            return out
        try:
            pilot, mv, cv = observe(ns, out, contests, cvrs, man, mvr_votes, L)
        except Exception as e:
            out.raised("pipeline(pilot)", e)
            return out
        ests = {}
        for key, asn in sorted(con.assertions.items()):
            d = pilot[key][0]
            if len(set(d)) > 1:
                out.probe("non-constant pilot")
            if L < N / 2:
                out.probe("pilot shorter than N/2")
            try:
                with W.quiet():
                    ests[key] = asn.find_sample_size(data=np.array(d), reps=None)
            except Exception as e:
                out.raised("find_sample_size(pilot)", e)
                ests[key] = None
        # C16.e contest level
        try:
            with W.quiet():
                cest = con.find_sample_size(audit=audit, mvr_sample=mv, cvr_sample=cv)
            if all(v is not None for v in ests.values()) and cest != max(ests.values()):
                out.violate("C16.e", "contest-max", f"Contest.find_sample_size gave {cest}, its assertions estimate {ests}")
        except Exception as e:
            out.raised("Contest.find_sample_size", e)
        with W.quiet():
            ns.Assertion.reset_p_values(contests=contests)
        try:
            full, _mv, _cv = observe(ns, out, contests, cvrs, man, mvr_votes, N)
        except Exception as e:
            out.raised("pipeline(full)", e)
            return out
        for key, asn in sorted(con.assertions.items()):
            if ests[key] is None:
                continue
            obs = first_crossing(full[key][1], alpha, N)
            out.ev("pilot", [key, int(ests[key]), obs])
            _probe_est(out, ests[key], N)
            if ests[key] != obs:
                out.violate("C16.b", f"pilot/{cs['audit_type']}/{cs['test']}",
                            f"assertion {key}: pilot of {L} cards {pilot[key][0][:8]}, N={N}, limit {alpha}: estimated {ests[key]} cards, "
                            f"but the audit run on the pilot pattern repeated to N cards first meets the limit at card {obs}")
            check_prefix_clause(ns, out, case, asn, full[key][0][: max(L, min(N, obs))], alpha, N, f"assertion {key}")
        return out

    if kind == "rates":
        r1, r2 = case["rate_1"], case["rate_2"]
        filler = case["filler"]
        cvr_kind = list(filler)
        mvr_kind = list(filler)
        sm = cs["choice_function"] == W.SUPERMAJORITY
        if sm:
            out.probe("super-majority contest with assumed error rates")
        if r1:
            for i in range(0, N, int(1 / r1)):
                # an overstatement of 1/2 in assorter units: winner -> no vote (plurality), no vote -> loser (super-majority)
                cvr_kind[i], mvr_kind[i] = ("blank", "l") if sm else ("w", "blank")
                out.probe("one-vote overstatement staged")
        if r2:
            for i in range(0, N, int(1 / r2)):
                cvr_kind[i], mvr_kind[i] = "w", "l"
                out.probe("two-vote overstatement staged")
        cvr_votes = [_vote(k, cands) for k in cvr_kind]
        mvr_votes = [_vote(k, cands) for k in mvr_kind]
        world, audit, contests, cvrs, man = build(ns, case, cvr_votes)
        with W.quiet():
            ns.Assertion.set_all_margins_from_cvrs(audit=audit, contests=contests, cvr_list=cvrs)
        con = contests["K0"]
        target = f"{cands[0]} v ALL_OTHERS" if sm else f"{cands[0]} v {cands[1]}"
        if any(a.margin <= 0 for a in con.assertions.values()):
            out.ev("skip", "non-positive margin")
            return out
        ests = {}
        for key, asn in sorted(con.assertions.items()):
            try:
                with W.quiet():
                    ests[key] = asn.find_sample_size(data=None, rate_1=r1, rate_2=r2, reps=None)
            except Exception as e:
                out.raised("find_sample_size(rates)", e)
                ests[key] = None
        if case["via"] == "contest":
            try:
                with W.quiet():
                    cest = con.find_sample_size(audit=audit)
                if all(v is not None for v in ests.values()) and cest != max(ests.values()):
                    out.violate("C16.e", "contest-max", f"Contest.find_sample_size gave {cest}, its assertions estimate {ests}")
            except Exception as e:
                out.raised("Contest.find_sample_size", e)
        if case["via"] == "audit" and cs["audit_type"] == W.COMPARISON:
            try:
                with W.quiet():
                    audit.find_sample_size(contests, cvrs=cvrs)
                if all(v is not None for v in ests.values()) and con.sample_size != max(ests.values()):
                    out.violate("C16.e", "audit-max", f"Audit.find_sample_size set the contest to {con.sample_size}, its "
                                                      f"unconfirmed assertions estimate {ests}")
            except Exception as e:
                out.raised("Audit.find_sample_size", e)
        try:
            full, _mv, _cv = observe(ns, out, contests, cvrs, man, mvr_votes, N)
        except Exception as e:
            out.raised("pipeline(full)", e)
            return out
        # the staged schedule realises the assumed data for the winner-v-loser assertion
        asn = con.assertions[target]
        if ests[target] is not None:
            obs = first_crossing(full[target][1], alpha, N)
            out.ev("rates", [int(ests[target]), obs, r1, r2])
            _probe_est(out, ests[target], N)
            if ests[target] != obs:
                out.violate("C16.c", f"rates/{cs['audit_type']}/{cs['test']}",
                            f"assumed rates {r1}/{r2}, N={N}, limit {alpha}, margin {asn.margin}: estimated {ests[target]} cards, but the "
                            f"audit on accurate cards with overstatements at those positions first meets the limit at card {obs}")
            check_prefix_clause(ns, out, case, asn, full[target][0][: min(N, max(2, obs))], alpha, N, f"assertion {target}")
        return out

    # ---- polling
    nw, nl = case["tally"]["w"], case["tally"]["l"]
    cs2 = copy.deepcopy(cs)
    c2 = dict(case)
    c2["contest"] = cs2
    w, l = cands[0], cands[1]
    other = "o" if len(cands) > 2 else "blank"
    # reported tallies; ballots staged below in the interleaved order
    try:
        x = [float(v) for v in ns.Assertion.interleave_values(nl, N - nl - nw, nw, big=1)]
    except Exception as e:
        out.raised("interleave_values", e)
        out.violate("C16.f", f"raised-{type(e).__name__}", f"interleave_values({nl},{N - nl - nw},{nw}) raised {e!r}")
        return out
    got = (x.count(0.0), x.count(0.5), x.count(1.0))
    if got != (nl, N - nl - nw, nw):
        out.violate("C16.f", "counts", f"interleave_values({nl},{N - nl - nw},{nw}) returned counts {got}")
        return out
    kinds = ["l" if v == 0.0 else ("w" if v == 1.0 else other) for v in x]
    ballots = [_vote(k, cands) for k in kinds]
    world, audit, contests, cvrs, man = build(ns, c2, ballots)
    con = contests["K0"]
    tally = {c: 0 for c in cands}
    for b in ballots:
        for c, v in b.items():
            tally[c] += 1
    con.tally = tally
    with W.quiet():
        con.find_margins_from_tally()
    target = f"{w} v {l}"
    asn = con.assertions[target]
    if asn.margin is None or asn.margin <= 0:
        out.ev("skip", "non-positive margin")
        return out
    try:
        with W.quiet():
            if case["via"] == "contest":
                ests = {}
                for key, a in con.assertions.items():
                    if a.margin > 0:
                        ests[key] = a.find_sample_size(data=None, rate_1=audit.error_rate_1, rate_2=audit.error_rate_2, reps=None)
                if len(ests) == len(con.assertions):
                    cest = con.find_sample_size(audit=audit)
                    if cest != max(ests.values()):
                        out.violate("C16.e", "contest-max", f"Contest.find_sample_size gave {cest}, its assertions estimate {ests}")
                est = ests[target]
            else:
                est = asn.find_sample_size(data=None, reps=None)
    except Exception as e:
        out.raised("find_sample_size(polling)", e)
        out.violate("C16.d", f"raised-{type(e).__name__}", f"polling estimate from tallies {tally} raised {e!r}")
        return out
    # run the polling audit on the staged order
    import random
    mvrs = [ns.CVR(id=f"1-1-{i + 1}", votes={"K0": copy.deepcopy(b)}) for i, b in enumerate(ballots)]
    try:
        with W.quiet():
            cards, order, ph = ns.Dominion.sample_from_manifest(man, list(range(1, N + 1)))
            random.Random(3).shuffle(mvrs)
            ns.CVR.prep_polling_sample(mvrs, order)
            ns.Assertion.set_p_values(contests=contests, mvr_sample=mvrs, cvr_sample=None)
    except Exception as e:
        out.raised("pipeline(polling)", e)
        return out
    out.units["draws"] += N
    out.units["rounds"] += 1
    obs = first_crossing([float(p) for p in asn.p_history], alpha, N)
    out.ev("polling", [int(est), obs, tally])
    _probe_est(out, est, N)
    if est != obs:
        out.violate("C16.d", f"polling/{cs['test']}",
                    f"tallies {tally}, N={N}, limit {alpha}: estimated {est} cards, but a polling audit whose cards come out in the "
                    f"interleaved order of the tallies first meets the limit at card {obs}")
    return out


def execute_audit(ns, out, case):
    """C16.e at audit level: several contests in one call; each contest's estimate must be the largest among
    ITS OWN unconfirmed assertions, without data and with the data of a first round"""
    import random
    N = case["N"]
    cids = list(case["contests"])
    oneaudit = bool(case.get("oneaudit"))
    world = {"use_style": True, "max_cards": N, "contests": copy.deepcopy(case["contests"]),
             "audit_type": W.ONEAUDIT if oneaudit else W.COMPARISON,
             "error_rate_1": case["rate_1"], "error_rate_2": case["rate_2"], "reps": case["reps"], "quantile": case["quantile"],
             "sim_seed": case["sim_seed"]}
    for cs in world["contests"].values():
        cs["cards"] = N
    audit = W.mk_audit(ns, world)
    contests = W.mk_contests(ns, world)
    cvrs = []
    for i in range(N):
        v = {cid: _vote(case["votes"][cid][i], case["contests"][cid]["candidates"]) for cid in cids}
        bsz = case.get("batch", 5)
        b = i // bsz
        pooled = bool(oneaudit and case.get("pool_every") and b % case["pool_every"] == 0)
        cvrs.append(ns.CVR(id=f"1-1-{i + 1}", votes=v, card_in_batch=i + 1, tally_pool=f"1-{b}" if oneaudit else "1-1", pool=pooled))
    for i, c in enumerate(cvrs):
        c.sample_num = i
    man = pd.DataFrame([{"Tray #": "1", "Tabulator Number": "1", "Batch Number": "1", "Total Ballots": N, "VBMCart.Cart number": "1"}])
    man["cum_cards"] = man["Total Ballots"].cumsum()
    with W.quiet():
        if oneaudit:
            pools = ns.CVR.pool_contests(cvrs)
            for cid, con in contests.items():
                if case["contests"][cid]["audit_type"] != W.ONEAUDIT:
                    out.probe("comparison contest next to ONEAudit contests")
                    continue
                for asn in con.assertions.values():
                    asn.assorter.set_tally_pool_means(cvr_list=cvrs, tally_pools=pools, use_style=True)
        ns.Assertion.set_all_margins_from_cvrs(audit=audit, contests=contests, cvr_list=cvrs)
    if any(a.margin <= 0 for con in contests.values() for a in con.assertions.values()):
        out.ev("skip", "non-positive margin")
        return out
    out.probe("multi-assertion contest") if any(len(c.assertions) > 1 for c in contests.values()) else None

    def expected(data_of=None):
        exp = {}
        for cid, con in contests.items():
            best = 0
            for key, asn in con.assertions.items():
                if asn.proved:
                    continue
                with W.quiet():
                    if data_of is None and case["contests"][cid]["audit_type"] == W.ONEAUDIT:
                        # the ONEAudit hypothetical: this assertion's own CVR-vs-batch-mean values, a one-vote overstatement at
                        # every int(1/rate_1)-th position and a two-vote overstatement at every int(1/rate_2)-th (the latter
                        # prevailing where both fall), then the first crossing on that sequence
                        d, _u = asn.mvrs_to_data(cvrs, cvrs, use_all=True)
                        d = np.array(d, dtype=float)
                        if audit.error_rate_1:
                            d[np.arange(0, len(d), math.floor(1 / audit.error_rate_1))] = asn.make_overstatement(overs=1 / 2)
                        if audit.error_rate_2:
                            d[np.arange(0, len(d), math.floor(1 / audit.error_rate_2))] = asn.make_overstatement(overs=1)
                        e = asn.find_sample_size(data=d, reps=audit.reps, quantile=audit.quantile, seed=audit.sim_seed)
                    elif data_of is None:
                        # the comparison hypothetical, built here (not by the routine under test, which may be asked several
                        # times with different rates): error-free values, a one-vote overstatement at every int(1/rate_1)-th
                        # position, a zero at every int(1/rate_2)-th (the latter prevailing)
                        x_ref = np.full(int(asn.test.N), asn.make_overstatement(overs=0), dtype=float)
                        if audit.error_rate_1:
                            x_ref[np.arange(0, len(x_ref), int(1 / audit.error_rate_1))] = asn.make_overstatement(overs=1 / 2)
                        if audit.error_rate_2:
                            x_ref[np.arange(0, len(x_ref), int(1 / audit.error_rate_2))] = 0
                        e = asn.find_sample_size(data=x_ref, reps=audit.reps, quantile=audit.quantile, seed=audit.sim_seed)
                    else:
                        e = asn.find_sample_size(data=data_of[(cid, key)], prefix=True, reps=audit.reps, quantile=audit.quantile,
                                                 seed=audit.sim_seed)
                best = max(best, e)
            exp[cid] = best
        return exp

    try:
        exp = expected()
        with W.quiet():
            audit.find_sample_size(contests, cvrs=cvrs)
        got = {cid: con.sample_size for cid, con in contests.items()}
    except Exception as e:
        out.raised("Audit.find_sample_size", e)
        return out
    out.ev("audit-initial", [exp, got])
    if any(1 < v < N for v in exp.values()):
        out.nontrivial = True
        out.probe("estimate strictly inside (1, N)")
    if case.get("second_rates") is not None and got == exp:
        # the planning assumptions are revised and the estimate asked for again, with the same audit, contests and list
        audit.error_rate_1, audit.error_rate_2 = case["second_rates"]
        try:
            exp2 = expected()
            with W.quiet():
                audit.find_sample_size(contests, cvrs=cvrs)
            got2 = {cid: con.sample_size for cid, con in contests.items()}
            out.probe("estimate asked for again after the assumed error rates were revised")
            out.ev("audit-second", [exp2, got2])
            if got2 != exp2:
                out.violate("C16.e", "audit-max/second-estimate",
                            f"with the assumed rates revised from {case['rate_1']}/{case['rate_2']} to {case['second_rates']} "
                            f"Audit.find_sample_size set contests to {got2}; each contest's own assertions estimate {exp2}")
        except Exception as e:
            out.raised("Audit.find_sample_size(second)", e)
        audit.error_rate_1, audit.error_rate_2 = case["rate_1"], case["rate_2"]
    if got != exp:
        out.violate("C16.e", "audit-max/initial", f"Audit.find_sample_size set contests to {got}; the largest estimate among each "
                                                  f"contest's own unconfirmed assertions is {exp} (contest order {list(contests)})")
        return out
    # a first round, then the estimate from its data
    n = min(case["first"], N)
    for con in contests.values():
        con.sample_size = n
    try:
        with W.quiet():
            idx = ns.CVR.consistent_sampling(cvr_list=cvrs, contests=contests)
            cards, order, cvr_sample, _ph = ns.Dominion.sample_from_cvrs(cvrs, man, idx)
            mvrs = []
            for i in idx:
                v = copy.deepcopy(cvrs[i].votes)
                if i in set(case["err"]):
                    v = {cid: {} for cid in v}
                mvrs.append(ns.CVR(id=cvrs[i].id, votes=v))
            random.Random(5).shuffle(mvrs)
            cvr_sample = list(cvr_sample)
            ns.CVR.prep_comparison_sample(mvrs, cvr_sample, order)
            ns.Assertion.set_p_values(contests=contests, mvr_sample=mvrs, cvr_sample=cvr_sample)
            data_of = {(cid, key): asn.mvrs_to_data(mvrs, cvr_sample)[0] for cid, con in contests.items()
                       for key, asn in con.assertions.items()}
        out.units["draws"] += len(idx)
        out.units["rounds"] += 1
        proved = sum(1 for con in contests.values() for a in con.assertions.values() if a.proved)
        exp = expected(data_of)
        with W.quiet():
            audit.find_sample_size(contests, cvrs=cvrs, mvr_sample=mvrs, cvr_sample=cvr_sample)
        got = {cid: con.sample_size for cid, con in contests.items()}
    except Exception as e:
        out.raised("Audit.find_sample_size(data)", e)
        return out
    out.ev("audit-data", [exp, got, proved])
    out.shape(f"proved={min(proved, 2)}")
    if got != exp:
        out.violate("C16.e", "audit-max/with-data", f"after a round of {n} cards ({proved} assertions confirmed) Audit.find_sample_size "
                                                    f"set contests to {got}; the largest estimate among each contest's own unconfirmed "
                                                    f"assertions is {exp} (contest order {list(contests)})")
    return out


def _probe_est(out, est, N):
    if est is None:
        return
    if 1 < est < N:
        out.probe("estimate strictly inside (1, N)")
        out.nontrivial = True
    elif est >= N:
        out.probe("estimate == N (never crosses)")
    else:
        out.probe("estimate == 1")


def reducers(case):
    kind = case["kind"]
    if kind == "audit":
        if len(case["contests"]) > 2:
            for cid in list(case["contests"]):
                c = copy.deepcopy(case)
                del c["contests"][cid]
                del c["votes"][cid]
                yield c
        if case["N"] > 8:
            c = copy.deepcopy(case)
            c["N"] = max(8, case["N"] // 2)
            c["votes"] = {k: v[: c["N"]] for k, v in c["votes"].items()}
            c["first"] = min(c["first"], c["N"])
            c["err"] = [i for i in c["err"] if i < c["N"]]
            yield c
        if case["err"]:
            c = copy.deepcopy(case)
            c["err"] = []
            yield c
        if case["reps"] is not None:
            c = copy.deepcopy(case)
            c["reps"] = None
            yield c
        for cid, cs in case["contests"].items():
            if cs.get("test_kwargs"):
                c = copy.deepcopy(case)
                c["contests"][cid]["test_kwargs"] = {}
                yield c
        return
    if kind == "interleave":
        for i in range(3):
            if case["n"][i] > (1 if i == 2 else 0):
                c = copy.deepcopy(case)
                c["n"][i] -= 1
                yield c
        return
    if kind == "direct":
        if case["N"] > len(case["x"]) + 1:
            c = copy.deepcopy(case)
            c["N"] = max(len(case["x"]) + 1, case["N"] // 2)
            yield c
            c = copy.deepcopy(case)
            c["N"] -= 1
            yield c
        for i in range(len(case["x"])):
            if len(case["x"]) > 1:
                c = copy.deepcopy(case)
                del c["x"][i]
                yield c
        kw = case["cfg"]["kwargs"]
        for k in list(kw):
            if k not in ("eta", "lam", "g"):
                c = copy.deepcopy(case)
                del c["cfg"]["kwargs"][k]
                yield c
        return
    if case["N"] > 8:
        c = copy.deepcopy(case)
        c["N"] = max(6, case["N"] // 2)
        if "filler" in c:
            c["filler"] = c["filler"][: c["N"]]
        if "tally" in c:
            c["tally"]["w"] = max(1, min(c["tally"]["w"], c["N"]))
            c["tally"]["l"] = min(c["tally"]["l"], c["N"] - c["tally"]["w"])
        yield c
        c = copy.deepcopy(case)
        c["N"] -= 1
        if "filler" in c:
            c["filler"] = c["filler"][: c["N"]]
        if "tally" in c:
            c["tally"]["w"] = max(1, min(c["tally"]["w"], c["N"]))
            c["tally"]["l"] = min(c["tally"]["l"], c["N"] - c["tally"]["w"])
        yield c
    if kind == "pilot":
        for i in range(len(case["pattern"])):
            if len(case["pattern"]) > 2:
                c = copy.deepcopy(case)
                del c["pattern"][i]
                yield c
        for i, p in enumerate(case["pattern"]):
            if p != ["w", "w"]:
                c = copy.deepcopy(case)
                c["pattern"][i] = ["w", "w"]
                yield c
    if len(case["contest"]["candidates"]) > 2:
        c = copy.deepcopy(case)
        c["contest"]["candidates"] = c["contest"]["candidates"][:2]
        if "pattern" in c:
            c["pattern"] = [[a if a != "o" else "blank", b if b != "o" else "blank"] for a, b in c["pattern"]]
        yield c
    if case["contest"].get("test_kwargs"):
        c = copy.deepcopy(case)
        c["contest"]["test_kwargs"] = {}
        yield c
    if len(case.get("sims", [])) > 1:
        c = copy.deepcopy(case)
        c["sims"] = c["sims"][:1]
        yield c
