"""C08 - phantom records account for every possible card and are scored worst-case.

AuditWorld with card bounds that exceed what the voting system produced (lost CVRs, cards nobody
accounted for), style on/off, any pool labelling of phantoms; then rounds in which any subset of the
sampled cards cannot be found."""
import copy

import pandas as pd

from auditsim import repo as R
from auditsim import world as W
from auditsim import gen as G
from auditsim.driver import AuditRun
from auditsim.log import Outcome, close

PROP = "C08"
TIERS = {
    "quick": {"runs": 8000, "chunk": 100, "max_cards": 40},
    "thorough": {"budget_s": 900, "chunk": 100, "max_cards": 150},
}
RULE = ("one run = one seeded election whose card bounds exceed the CVRs by per-contest and overall shortfalls, a phantom "
        "labelling, and 1-3 rounds in which sampled cards may be unfindable; accounting is checked right after phantom "
        "creation, scoring on every (manual record, CVR) pair met; non-trivial = at least one phantom CVR was created or "
        "one card was unfindable; distinct = distinct event-log digest")
ASSUMPTIONS = [
    "card bounds are >= the number of CVRs listing the contest / the number of CVRs (as quantified)",
    "reference assorters (written from the documentation) give A(manual record) for the 'scored 1/2' clause; 1e-9 tolerance",
    "Hart lookups are exercised on a parallel copy of the CVR list with Hart-style identifiers (batch_card)",
]
COMPONENTS = {
    "real": ["CVR.make_phantoms", "Assorter.overstatement", "Assertion.overstatement_assorter", "Assorter.set_tally_pool_means",
             "Dominion.sample_from_cvrs", "Hart.sample_from_cvrs", "Dominion.sample_from_manifest", "CVR.consistent_sampling",
             "Assertion.set_p_values"],
    "stub": ["election", "voting system (lost CVRs)", "auditors (unfindable cards)", "manifests"],
}
PROBES = ["per-contest shortfalls differ", "contest bound unspecified", "zero phantoms needed", "style off", "phantom pooled",
          "phantom CVR sampled", "unfindable card sampled", "phantom batch hit", "phantom in Hart lookup",
          "phantom batch looked up through Hart", "phantom creation repeated on its own output (style off)",
          "same contests went through phantom creation before (partial delivery)"]


def generate(rng, tier):
    cfg = TIERS[tier]
    case = G.gen_case(rng, max_cards=cfg["max_cards"], max_rounds=3, p_shortfall=0.6, rates=[0.0, 0.1, 0.3, 0.6],
                      audit_types=[(W.COMPARISON, 5), (W.ONEAUDIT, 3), (W.POLLING, 1)],
                      homogeneous_when_style_off=rng.chance(0.5))
    case["pre_delivery"] = rng.chance(0.3)
    return case


class Obs:
    def __init__(self, out):
        self.out = out

    def before_phantoms(self, run, contests):
        """an earlier, partial delivery of CVRs went through phantom creation with the same Contest objects"""
        # a record of some other election, built without contests before any of this happens: it must stay empty
        self.bystander = run.ns.CVR(id="bystander")
        if self.bystander.votes:  # (left behind by an earlier run in this process: start clean, verdicts are per run)
            self.bystander.votes.clear()
        if not run.case.get("pre_delivery") or len(run.cvr_list) < 2:
            return
        ns = run.ns
        part = W.mk_cvrs(ns, run.case["cvrs"][: max(1, len(run.case["cvrs"]) // 2)])
        try:
            with W.quiet():
                ns.CVR.make_phantoms(audit=run.audit, contests=contests, cvr_list=part, prefix="early-1-")
            self.out.probe("same contests went through phantom creation before (partial delivery)")
            self.out.ev("pre_delivery", len(part))
            # user-specified bounds are what they were; an unspecified bound has by now been set to the stratum bound
        except Exception as e:
            self.out.raised("make_phantoms(partial delivery)", e)

    # ---- accounting
    def after_phantoms(self, run, contests):
        out = self.out
        case = run.case
        cvrs, n_ph = run.cvr_list, run.n_phantoms
        n0 = len(case["cvrs"])
        style = run.use_style
        out.ev("phantoms", [int(n_ph), len(cvrs)])
        if not style:
            out.probe("style off")
        # b: originals first, same objects, unchanged
        if len(cvrs) < n0 or any(cvrs[i] is not run.orig_cvrs[i] for i in range(n0)):
            out.violate("C08.b", "originals-first", "the returned list does not start with the original records")
        else:
            for spec, c in zip(case["cvrs"], cvrs[:n0]):
                if (c.id != spec["id"] or c.votes != spec["votes"] or c.phantom or c.tally_pool != spec["tally_pool"]
                        or bool(c.pool) != bool(spec["pool"])):
                    out.violate("C08.b", "originals-changed", f"original record {spec['id']} was modified by phantom creation")
                    break
        new = cvrs[n0:]
        if any(not c.phantom for c in new):
            out.violate("C08.b", "non-phantom-appended", "a record appended by phantom creation is not flagged phantom")
        # c: identifiers
        ids = [c.id for c in cvrs]
        if len(set(ids)) != len(ids):
            out.violate("C08.c", "duplicate-id", f"identifiers are not unique after phantom creation: {[i for i in ids if ids.count(i) > 1][:4]}")
        # a, d: accounting
        max_cards = run.world["max_cards"]
        spec_cards = {cid: cs.get("cards") for cid, cs in run.world["contests"].items()}
        if any(v is None for v in spec_cards.values()):
            out.probe("contest bound unspecified")
        if style:
            shortfalls = {}
            for cid, con in contests.items():
                listing0 = sum(1 for s in case["cvrs"] if cid in s["votes"])
                bound = spec_cards[cid] if spec_cards[cid] is not None else max_cards
                shortfalls[cid] = bound - listing0
                listing = sum(1 for c in cvrs if c.has_contest(cid))
                if con.cards != bound:
                    out.violate("C08.a", "bound-changed", f"card bound of {cid} became {con.cards}, was {bound}")
                elif listing != bound:
                    out.violate("C08.a", "style/contest-count",
                                f"{listing} records list {cid} after phantom creation but its card bound is {bound} "
                                f"({listing0} CVRs listed it)")
            need = max([0] + list(shortfalls.values()))
            if len(set(shortfalls.values())) > 1:
                out.probe("per-contest shortfalls differ")
        else:
            need = max_cards - n0
            if len(cvrs) != max_cards:
                out.violate("C08.a", "nostyle/total", f"{len(cvrs)} records after phantom creation, stratum bound {max_cards}")
        if need == 0:
            out.probe("zero phantoms needed")
        if len(new) > need:
            out.violate("C08.d", "too-many", f"{len(new)} phantoms created, largest shortfall is {need}")
        if int(n_ph) != len(new):
            out.violate("C08.d", "count-returned", f"reported {n_ph} phantoms, appended {len(new)}")
        lab = case["phantom_label"]
        if any(c.tally_pool != lab["tally_pool"] or bool(c.pool) != bool(lab["pool"]) for c in new):
            out.violate("C08.b", "labels", "phantoms do not carry the requested pool labelling")
        if new and lab["pool"]:
            out.probe("phantom pooled")
        if new:
            out.nontrivial = True
            out.fault("F2/F8 cards without CVR -> phantom CVRs", len(new))
        if not style and not out.violations:
            # without style information the accounting is over all records: a list that already holds its phantoms
            # (the call repeated on its own output) needs none
            try:
                with W.quiet():
                    lst2, n2 = run.ns.CVR.make_phantoms(audit=run.audit, contests=contests, cvr_list=list(cvrs), prefix="again-1-")
                out.probe("phantom creation repeated on its own output (style off)")
                if len(lst2) != max_cards or int(n2) != 0:
                    out.violate("C08.a", "nostyle/repeated", f"phantom creation repeated on a list that already accounts for the stratum "
                                                             f"bound {max_cards}: {len(lst2)} records, {n2} more phantoms")
            except Exception as e:
                out.raised("make_phantoms(again)", e)

    # ---- lookup
    def after_lookup(self, run, r, idx, cards, sample_order, cvr_sample, mvr_ph):
        out = self.out
        ns = run.ns
        want = sorted(run.cvr_list[i].id for i in idx if run.cvr_list[i].phantom)
        got = sorted(m.id for m in mvr_ph)
        if want != got or any(not m.phantom for m in mvr_ph):
            out.violate("C08.g", "dominion", f"sampled phantom CVRs {want[:5]} but phantom manual records {got[:5]}")
        if [c.id for c in cvr_sample] != [run.cvr_list[i].id for i in idx]:
            out.violate("C08.g", "dominion-order", "sampled CVRs are not returned in selection order")
        # Hart: parallel list with Hart identifiers
        h_cvrs = []
        for c in run.cvr_list:
            if c.phantom:
                h_cvrs.append(ns.CVR(id=c.id, votes={}, phantom=True))
            else:
                tab, batch, pos = c.id.split("-")
                h_cvrs.append(ns.CVR(id=f"{tab}x{batch}_{pos}", votes=c.votes, phantom=False))
        man = pd.DataFrame([{"Container": "box", "Tabulator": b["tab"], "Batch Name": f"{b['tab']}x{b['batch']}",
                             "Number of Ballots": str(b["n"])} for b in run.case["batches"]])
        try:
            with W.quiet():
                _c, order, h_sample, h_ph = ns.Hart.sample_from_cvrs(h_cvrs, man, idx)
        except Exception as e:
            out.raised("Hart.sample_from_cvrs", e)
            out.violate("C08.g", f"hart-raised-{type(e).__name__}", f"Hart.sample_from_cvrs raised {e!r}")
            return
        want_h = sorted(h_cvrs[i].id for i in idx if h_cvrs[i].phantom)
        got_h = sorted(m.id for m in h_ph)
        if want_h:
            out.probe("phantom in Hart lookup")
        if want_h != got_h or any(not m.phantom for m in h_ph):
            out.violate("C08.g", "hart", f"sampled phantom CVRs {want_h[:5]} but phantom manual records {got_h[:5]}")

    # ---- scoring
    def after_data(self, run, r, data):
        out = self.out
        ns = run.ns
        if run.polling:
            return
        style = run.use_style
        for m, c in zip(run.mvr_sample, run.cvr_sample):
            if m.phantom and not c.phantom:
                out.probe("unfindable card sampled")
                out.nontrivial = True
            ph = ns.CVR(id=m.id, votes={}, phantom=True)
            for cid, con in run.contests.items():
                if style and not c.has_contest(cid):
                    continue
                descs = W.assertion_descriptors(cid, run.world["contests"][cid])
                for key, asn in con.assertions.items():
                    try:
                        with W.quiet():
                            b = asn.overstatement_assorter(m, c, use_style=style)
                            bp = asn.overstatement_assorter(ph, c, use_style=style)
                            om = asn.assorter.overstatement(m, c, use_style=style)
                    except Exception as e:
                        out.raised("overstatement_assorter", e)
                        continue
                    out.units["pairs_scored"] += 1
                    flagged = (not c.phantom) and bool(run.case["mvr"].get(c.id, {}).get("phantom"))
                    if flagged and not close(b, bp):
                        out.violate("C08.e", f"{run.world['contests'][cid]['choice_function']}/style={style}/unfindable-card-not-scored-as-phantom",
                                    f"card {c.id} could not be found (the auditors' record is flagged {m.phantom!r}); it is scored {b!r} "
                                    f"for {cid}/{key}, a phantom record scores {bp!r}")
                    if bp > b + 1e-12:
                        out.violate("C08.e", f"{run.world['contests'][cid]['choice_function']}/style={style}",
                                    f"replacing the manual record of {c.id} by a phantom raises the overstatement assorter of "
                                    f"{cid}/{key} from {b!r} to {bp!r}")
                    if c.phantom and not (c.pool and asn.assorter.tally_pool_means is not None):
                        if m.phantom or (style and not m.has_contest(cid)):
                            a_m = 0.0
                        else:
                            a_m = W.ref_assort(descs[key], m.votes)
                        if not close(om, 0.5 - a_m):
                            out.violate("C08.f", f"unpooled/{run.world['contests'][cid]['choice_function']}",
                                        f"phantom CVR {c.id} compared with a manual record of assorter value {a_m}: "
                                        f"overstatement {om!r}, expected 1/2 - {a_m}")

        # a card first recorded as found turns out to be another card: the same record object is flagged unfindable
        # afterwards and the sample is scored again (then the flag is taken back: later rounds see the original record)
        late = [(m, c) for m, c in zip(run.mvr_sample, run.cvr_sample) if not m.phantom and not c.phantom][:2]
        for m, c in late:
            m.phantom = True
            try:
                out.fault("F16 record flagged unfindable after it was first scored")
                for cid, con in run.contests.items():
                    for key, asn in con.assertions.items():
                        try:
                            with W.quiet():
                                d, _u = asn.mvrs_to_data(run.mvr_sample, run.cvr_sample)
                                exp = [asn.overstatement_assorter(mm, cc, use_style=style)
                                       for mm, cc in zip(run.mvr_sample, run.cvr_sample)
                                       if (not style) or (cc.has_contest(cid) and cc.sample_num <= con.sample_threshold)]
                        except Exception as e:
                            out.raised("mvrs_to_data(after late flag)", e)
                            continue
                        d = [float(v) for v in d]
                        if len(d) != len(exp) or any(not close(a, b) for a, b in zip(d, exp)):
                            out.violate("C08.e", f"{run.world['contests'][cid]['choice_function']}/style={style}/flagged-after-first-scoring",
                                        f"card {c.id} was flagged unfindable after round {r} had been scored once; scored again, "
                                        f"{cid}/{key} gets {d[:6]}, the records as they now stand give {[float(v) for v in exp[:6]]}")
            finally:
                m.phantom = False
        if late:
            for cid, con in run.contests.items():  # leave every assertion as the driver's own scoring left it
                for key, asn in con.assertions.items():
                    try:
                        with W.quiet():
                            asn.mvrs_to_data(run.mvr_sample, run.cvr_sample)
                    except Exception:
                        pass

    def manifest_lookups(self, run):
        """C08.g for lookups from the manifest: phantom manual records exactly for the numbers in the phantom batch"""
        out, ns = self.out, run.ns
        batches = run.case["batches"]
        total_real = sum(b["n"] for b in batches)
        total = total_real + max(0, run.shortfall_manifest)
        if total == 0:
            return
        want = max(0, run.shortfall_manifest)
        try:
            with W.quiet():
                _c, _o, ph = ns.Dominion.sample_from_manifest(run.manifest, list(range(1, total + 1)))
            if len(ph) != want or any(not m.phantom for m in ph):
                out.violate("C08.g", "dominion-manifest", f"{len(ph)} phantom manual records for a phantom batch of {want} cards")
        except Exception as e:
            out.raised("Dominion.sample_from_manifest", e)
        rows = [{"Container": "box", "Tabulator": b["tab"], "Batch Name": f"{b['tab']}x{b['batch']}", "Number of Ballots": b["n"]}
                for b in batches]
        if want:
            rows.append({"Container": "None", "Tabulator": "phantom", "Batch Name": "1", "Number of Ballots": want})
        hm = pd.DataFrame(rows)
        hm["cum_cards"] = hm["Number of Ballots"].cumsum()
        for col in ["Container", "Tabulator", "Batch Name", "Number of Ballots"]:
            hm[col] = hm[col].astype(str)
        try:
            with W.quiet():
                hc, _o, hph = ns.Hart.sample_from_manifest(hm, list(range(0, total)))
            if want:
                out.probe("phantom batch looked up through Hart")
            if len(hph) != want or any(not m.phantom for m in hph):
                out.violate("C08.g", "hart-manifest", f"{len(hph)} phantom manual records for a phantom batch of {want} cards "
                                                      f"(batch sizes {[b['n'] for b in batches]})")
        except Exception as e:
            out.raised("Hart.sample_from_manifest", e)
            out.violate("C08.g", f"hart-manifest-raised-{type(e).__name__}", f"Hart.sample_from_manifest raised {e!r}")

    def after_setup(self, run):
        out = self.out
        by = getattr(self, "bystander", None)
        if by is not None and by.votes:
            out.violate("C08.b", f"bystander/{run.world['audit_type']}/style={run.use_style}",
                        f"a record built without contests before phantom creation lists {sorted(by.votes)} after the set-up "
                        f"(phantoms / pooling wrote into a dict it shares)")
            by.votes.clear()
        self.manifest_lookups(run)
        if run.polling:
            return
        self.score_every_phantom(run)
        if run.use_style and run.world["audit_type"] == W.ONEAUDIT:
            # the ONEAudit step adds contests to pooled CVRs and check_cards(force=True) lifts the bounds accordingly:
            # still one record per possible card
            for cid, con in run.contests.items():
                listing = sum(1 for c in run.cvr_list if c.has_contest(cid))
                if listing != con.cards:
                    out.violate("C08.a", "style/after-pooling", f"after the pooling step {listing} records list {cid} but its card "
                                                                f"bound is {con.cards}")
        # C08.f pooled phantoms contribute 1/2 to their pool's mean
        if run.world["audit_type"] != W.ONEAUDIT:
            return
        style = run.use_style
        for cid, con in run.contests.items():
            descs = W.assertion_descriptors(cid, run.world["contests"][cid])
            for key, asn in con.assertions.items():
                means = asn.assorter.tally_pool_means or {}
                for pool, mean in means.items():
                    members = [c for c in run.cvr_list if c.pool and c.tally_pool == pool and ((not style) or c.has_contest(cid))]
                    if not members or not any(c.phantom for c in members):
                        continue
                    ref = sum(0.5 if c.phantom else W.ref_assort(descs[key], c.votes) for c in members) / len(members)
                    if not close(mean, ref):
                        out.violate("C08.f", f"pooled/{run.world['contests'][cid]['choice_function']}",
                                    f"mean of pool {pool} for {cid}/{key} is {mean!r}; with its phantoms counted as 1/2 it is {ref!r}")


def _score_every_phantom(self, run):
    """every phantom CVR of the population (sampled or not - with style off the sampler never reaches them) against
    three manual records: the card cannot be found, a record that lists the contest, a record that does not"""
    out, ns = self.out, run.ns
    style = run.use_style
    phantoms = [c for c in run.cvr_list if c.phantom][:6]
    if not phantoms:
        return
    for cid, con in run.contests.items():
        cs = run.world["contests"][cid]
        descs = W.assertion_descriptors(cid, cs)
        winner_vote = {cs["winner"][0]: 1}
        loser = next((x for x in cs["candidates"] if x not in cs["winner"]), None)
        recs = [("unfindable", ns.CVR(id="m", votes={}, phantom=True)),
                ("winner", ns.CVR(id="m", votes={cid: dict(winner_vote)})),
                ("loser", ns.CVR(id="m", votes={cid: ({loser: 1} if loser else {})})),
                ("other-style", ns.CVR(id="m", votes={}))]
        for c in phantoms:
            if style and not c.has_contest(cid):
                continue
            for key, asn in con.assertions.items():
                pooled = bool(c.pool and asn.assorter.tally_pool_means is not None)
                try:
                    with W.quiet():
                        b_ph = asn.overstatement_assorter(recs[0][1], c, use_style=style)
                        for label, m in recs:
                            om = asn.assorter.overstatement(m, c, use_style=style)
                            b = asn.overstatement_assorter(m, c, use_style=style)
                            out.units["pairs_scored"] += 1
                            if b_ph > b + 1e-12:
                                out.violate("C08.e", f"{cs['choice_function']}/style={style}/population",
                                            f"phantom CVR {c.id}, manual record '{label}': replacing it by a phantom raises the "
                                            f"overstatement assorter of {cid}/{key} from {b!r} to {b_ph!r}")
                            if not pooled:
                                if m.phantom or (style and not m.has_contest(cid)):
                                    a_m = 0.0
                                else:
                                    a_m = W.ref_assort(descs[key], m.votes)
                                if not close(om, 0.5 - a_m):
                                    out.violate("C08.f", f"unpooled/{cs['choice_function']}/population",
                                                f"phantom CVR {c.id} (style={style}) against manual record '{label}' of assorter "
                                                f"value {a_m}: overstatement {om!r}, expected 1/2 - {a_m}")
                except Exception as e:
                    out.raised("overstatement(phantom population)", e)
        # a phantom record that carries votes (an exporter's placeholder filled in by hand) is still a phantom: its own
        # assorter value is the fixed 1/2, whatever it lists
        c2 = ns.CVR(id="ph-with-votes", votes={cid: dict(winner_vote)}, phantom=True)
        for key, asn in con.assertions.items():
            try:
                with W.quiet():
                    for label, m in recs:
                        om = asn.assorter.overstatement(m, c2, use_style=style)
                        out.units["pairs_scored"] += 1
                        a_m = 0.0 if (m.phantom or (style and not m.has_contest(cid))) else W.ref_assort(descs[key], m.votes)
                        if not close(om, 0.5 - a_m):
                            out.violate("C08.f", f"unpooled/{cs['choice_function']}/phantom-with-votes",
                                        f"phantom CVR listing a vote (style={style}) against manual record '{label}' of assorter "
                                        f"value {a_m}: overstatement {om!r}, expected 1/2 - {a_m}")
            except Exception as e:
                out.raised("overstatement(phantom with votes)", e)


Obs.score_every_phantom = _score_every_phantom


def execute(case):
    ns = R.load()
    out = Outcome()
    AuditRun(ns, case, out, observers=[Obs(out)]).run()
    return out


def reducers(case):
    if case.get("pre_delivery"):
        c = copy.deepcopy(case)
        c["pre_delivery"] = False
        yield c
    yield from G.reducers(case)
