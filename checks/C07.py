"""C07 - consistent sampling gives every contest the first cards of its own random order.

Simulated: a voting system's card list with arbitrary styles, a draw order decided by the scheduler
(through the real SHA-256 PRNG, through a scheduler-owned object behind the `prng` parameter, or by
direct assignment), the real sampler, the real lookup/ordering pipeline, auditors who hand the manual
records back in another order.  Oracle: the sort-filter-take reference model."""
import copy

import numpy as np
import pandas as pd

from auditsim import repo as R
from auditsim import world as W
from auditsim.log import Outcome, same, tight

PROP = "C07"
TIERS = {
    "quick": {"runs": 24000, "chunk": 500, "max_cards": 40},
    "thorough": {"budget_s": 600, "chunk": 500, "max_cards": 160},
}
RULE = ("one run = one seeded world (cards with arbitrary styles incl. cards listing no contest and phantoms, "
        "1-4 contests, a draw order, a size vector 0<=n_c<=#cards listing c, up to two continuing calls) pushed through "
        "the real sampler and data pipeline; non-trivial = at least two contests with different styles competing for "
        "cards, a card skipped because its contests were finished, a continuing call that added cards, or a fault that "
        "fired on a sampled card (records returned out of order, card not found, record lacking a contest); distinct = "
        "distinct event-log digest")
ASSUMPTIONS = [
    "sample numbers are distinct (as the statement requires); 256-bit SHA-256 outputs collide with negligible probability",
    "contest identifiers used as dict keys equal Contest.id (as Contest.from_dict_of_dicts guarantees)",
    "reference model (sort by sample number, filter by contest, take n_c, union) is written from the statement",
]
COMPONENTS = {
    "real": ["CVR.assign_sample_nums", "CVR.consistent_sampling", "cryptorandom.SHA256", "Contest", "Assertion",
             "Assertion.mvrs_to_data", "Assertion.set_all_margins_from_cvrs", "CVR.prep_comparison_sample",
             "Dominion.sample_from_cvrs"],
    "stub": ["voting system (card list, styles, votes)", "auditors (transcription, return order)",
             "scheduler-owned prng object (nextRandom) in 'scheduled' mode", "manifest"],
}
PROBES = ["card skipped by sampler (all its contests finished)", "card listing no contest", "phantom sampled",
          "contest with n_c=0", "contest taking every card", "records returned out of order",
          "two contests share threshold card", "continued call added cards", "sample numbers equal as floats",
          "second draw on the same contests with new numbers", "list sorted in place between draws",
          "size beyond the number of real CVRs (phantoms needed)", "sample sizes handed over as numpy integers",
          "sample size above 256", "contest added in place to cards already drawn from",
          "cards carry sampling probabilities from an earlier estimate",
          "continued call without a contest that needs no more cards",
          "corrected export: same contests, new records, one sampled card lists one more contest"]


class SchedPrng:
    """scheduler-owned stand-in for cryptorandom.SHA256: yields the numbers the schedule dictates"""

    def __init__(self, numbers):
        self.numbers = list(numbers)
        self.k = 0

    def nextRandom(self):
        n = self.numbers[self.k]
        self.k += 1
        return int(n).to_bytes(32, "big")


# --------------------------------------------------------------------------- generation
def generate(rng, tier):
    cfg = TIERS[tier]
    ncards = rng.randint(1, rng.pick([6, 12, cfg["max_cards"]]))
    if rng.chance(cfg.get("p_large", 0.01)):
        ncards = rng.randint(280, 700)  # sample sizes in the hundreds, as in a real audit
    ncon = rng.randint(1, 4)
    cids = [f"K{j}" for j in range(ncon)]
    contests = {}
    for cid in cids:
        ncand = rng.randint(2, 4)
        cands = [f"{cid}c{j}" for j in range(ncand)]
        contests[cid] = {"choice_function": W.PLURALITY, "n_winners": 1, "candidates": cands, "winner": [cands[0]],
                         "share_to_win": None, "risk_limit": 0.05, "cards": None, "audit_type": W.COMPARISON,
                         "g": 0.1, "assertion_json": None, "test": "ALPHA_MART", "estim": "optimal_comparison",
                         "bet": None, "test_kwargs": {}}
    # styles: a few style classes, cards drawn from them
    nstyles = rng.randint(1, 5)
    p_in = rng.pick([0.3, 0.6, 0.9])
    styles = [rng.subset(cids, p_in) for _ in range(nstyles)]
    if rng.chance(0.7):
        styles.append(list(cids))
    cards = []
    alt = []
    p_ph = rng.pick([0, 0, 0.1, 0.3])
    tab = rng.randint(1, 99)
    for i in range(ncards):
        st = rng.pick(styles)
        ph = rng.chance(p_ph)
        votes = {}
        votes2 = {}
        for cid in st:
            votes[cid] = {} if ph else W.gen_votes(rng, contests[cid])
            votes2[cid] = W.gen_votes(rng, contests[cid], strength=0.3)
        cid_ = f"phantom-1-{i + 1}" if ph else f"{tab}-{1 + i // 7}-{1 + i % 7}"
        cards.append({"id": cid_, "votes": votes, "phantom": ph})
        alt.append({"id": f"x{i}", "votes": votes2})
    mode = rng.wpick([("sha256", 3), ("sched", 3), ("direct", 3)])
    if mode == "sha256":
        numbering = {"mode": mode, "seed": rng.pick([rng.getrandbits(64), rng.randint(0, 9), 12345678901234567890])}
    else:
        kind = rng.pick(["perm", "big", "sparse", "near"])
        if kind == "perm":
            nums = rng.perm(ncards)
        elif kind == "near":
            # distinct huge integers that agree in their leading bits (floats cannot tell them apart)
            base = rng.getrandbits(rng.pick([80, 200, 255])) | (1 << 79)
            nums = [base + k for k in rng.perm(ncards)]
        elif kind == "big":
            s = set()
            while len(s) < ncards:
                s.add(rng.getrandbits(256))
            nums = list(s)
            rng.shuffle(nums)
        else:
            nums = rng.sample(range(0, 10 * ncards + 5), ncards)
        numbering = {"mode": mode, "numbers": nums}
    sizes = {}
    for cid in cids:
        avail = sum(1 for c in cards if cid in c["votes"])
        r = rng.random()
        if r < 0.12:
            sizes[cid] = 0
        elif r < 0.24:
            sizes[cid] = avail
        else:
            sizes[cid] = rng.randint(0, avail)
    # further calls that continue from the cards already selected (sizes never shrink)
    nxt = []
    cur = dict(sizes)
    for _ in range(rng.randint(0, 2)):
        cur = dict(cur)
        for cid in cids:
            avail = sum(1 for c in cards if cid in c["votes"])
            if rng.chance(0.6):
                cur[cid] = min(avail, cur[cid] + rng.randint(0, max(1, avail // 2)))
        nxt.append(cur)
    return {"contests": contests, "cards": cards, "alt": alt, "numbering": numbering, "sizes": sizes, "sizes_next": nxt,
            "size_type": rng.pick(["int", "int", "np"]), "drop_contest": rng.pick([0, 0, 1, 2, 3]),
            # sampling probabilities left on the cards by an earlier sample-size estimate (a documented side effect of it)
            "p_values": ([rng.pick([0, 0, 0.25, 1, None]) for _ in range(ncards)] if rng.chance(0.25) else None),
            "late_contest": ({"cid": rng.pick(cids), "cards": rng.sample(range(ncards), rng.randint(1, min(ncards, 4))),
                              "more": rng.randint(0, 3)} if rng.chance(0.3) else None),
            "pipeline": rng.chance(0.35), "return_order": rng.perm(ncards), "mvr_from_alt": rng.chance(0.5),
            # auditors' faults on the manual records: card not found (phantom record), record lacks a contest
            # a second, independent draw on the same Contest objects and the same list (a pilot, then the real draw):
            # new numbers, optionally after the list was sorted in place by its old numbers
            "redraw": ({"numbers": rng.sample(range(0, 50 * ncards + 7), ncards), "sort_first": rng.chance(0.5),
                        "sizes": {cid: rng.randint(0, sum(1 for c in cards if cid in c["votes"])) for cid in cids}}
                       if rng.chance(0.4) else None),
            # phantoms created by the library itself (sets Contest.cvrs / Contest.cards) before sampling
            "lib_phantoms": ({"shortfall": {cid: rng.randint(0, 3) for cid in cids}, "seed": rng.getrandbits(48),
                              "extra": {cid: rng.randint(0, 3) for cid in cids}} if rng.chance(0.35) else None),
            "mvr_phantom": [i for i in range(ncards) if rng.chance(0.1)],
            "mvr_drop": {str(i): rng.pick(cids) for i in range(ncards) if rng.chance(0.12)}}


# --------------------------------------------------------------------------- reference model
def reference(cards, nums, sizes):
    order = sorted(range(len(cards)), key=lambda i: nums[i])
    sel = set()
    thr = {}
    per = {}
    for cid, n in sizes.items():
        lst = [i for i in order if cid in cards[i]["votes"]][:n]
        per[cid] = lst
        sel.update(lst)
        if n > 0:
            thr[cid] = nums[lst[-1]]
    return [i for i in order if i in sel], thr, per


# --------------------------------------------------------------------------- execution
def assign(ns, cvrs, numbering):
    if numbering["mode"] == "sha256":
        ns.CVR.assign_sample_nums(cvrs, ns.SHA256(numbering["seed"]))
    elif numbering["mode"] == "sched":
        ns.CVR.assign_sample_nums(cvrs, SchedPrng(numbering["numbers"]))
    else:
        for c, n in zip(cvrs, numbering["numbers"]):
            c.sample_num = n


def execute(case):
    ns = R.load()
    out = Outcome()
    cards = case["cards"]
    world = {"use_style": True, "max_cards": len(cards), "contests": case["contests"]}
    contests = W.mk_contests(ns, world)
    audit = W.mk_audit(ns, world)
    cvrs = W.mk_cvrs(ns, cards)
    if case.get("p_values"):
        for c, pv in zip(cvrs, case["p_values"]):
            c.p = pv
        out.probe("cards carry sampling probabilities from an earlier estimate")
    assign(ns, cvrs, case["numbering"])
    nums = [c.sample_num for c in cvrs]
    out.ev("numbers", [str(n) for n in nums])
    try:
        if len({float(n) for n in nums}) < len(set(nums)):
            out.probe("sample numbers equal as floats")
    except OverflowError:
        pass
    out.shape(f"mode={case['numbering']['mode']} ncon={len(contests)} pipe={case['pipeline']}")
    if len(set(nums)) != len(nums):
        out.probe("sample numbers collide")
        return out  # outside the statement's domain
    sizes = case["sizes"]
    as_np = case.get("size_type") == "np"  # sizes as the library's own estimate leaves them (numpy integers)
    if as_np:
        out.probe("sample sizes handed over as numpy integers")
    if any(v > 256 for v in sizes.values()):
        out.probe("sample size above 256")
    for cid, con in contests.items():
        con.sample_size = np.int64(sizes[cid]) if as_np else sizes[cid]
    ref_idx, ref_thr, ref_per = reference(cards, nums, sizes)
    out.units["draws"] += len(ref_idx)
    out.units["sampler_calls"] += 1

    # probes
    styles = {frozenset(c["votes"].keys()) for c in cards}
    if any(not c["votes"] for c in cards):
        out.probe("card listing no contest")
    if any(n == 0 for n in sizes.values()):
        out.probe("contest with n_c=0")
    for cid, n in sizes.items():
        if n and n == sum(1 for c in cards if cid in c["votes"]) == len(cards):
            out.probe("contest taking every card")
    if ref_idx:
        last = max(nums[i] for i in ref_idx)
        skipped = [i for i in range(len(cards)) if nums[i] < last and i not in set(ref_idx) and cards[i]["votes"]]
        if skipped:
            out.probe("card skipped by sampler (all its contests finished)")
            out.nontrivial = True
    if any(cards[i].get("phantom") for i in ref_idx):
        out.probe("phantom sampled")
    tv = list(ref_thr.values())
    if len(tv) != len(set(tv)):
        out.probe("two contests share threshold card")
    if len(styles) > 1 and sum(1 for n in sizes.values() if n) > 1:
        out.nontrivial = True

    # ---- the real sampler
    try:
        idx = ns.CVR.consistent_sampling(cvr_list=cvrs, contests=contests)
    except Exception as e:  # in-domain call must produce a selection
        out.raised("consistent_sampling", e)
        out.violate("C07.a", f"raised-{type(e).__name__}", f"consistent_sampling raised {e!r} for sizes {sizes}")
        return out
    try:
        idx = [int(i) for i in idx]
    except Exception as e:
        out.violate("C07.a", "malformed-result", f"consistent_sampling returned {type(idx).__name__}, not a list of card indices ({e!r})")
        return out
    out.ev("selected", idx)
    out.shape(f"nsel={min(len(idx), 3)} skipped={int(bool(out.probes.get(PROBES[0])))}")
    if idx != ref_idx:
        if sorted(idx) != sorted(ref_idx):
            path = "selection"
        elif len(set(idx)) != len(idx):
            path = "repetition"
        else:
            path = "order"
        out.violate("C07.a", path, f"selected {idx} but the union of per-contest prefixes is {ref_idx}; sizes {sizes}")
    for cid, con in contests.items():
        if sizes[cid] > 0:
            out.ev("thr", [cid, str(con.sample_threshold)])
            if con.sample_threshold != ref_thr[cid]:
                out.violate("C07.b", "threshold",
                            f"threshold of {cid} is {con.sample_threshold}, its {sizes[cid]}-th card has {ref_thr[cid]}")
    flags = [i for i, c in enumerate(cvrs) if c.sampled]
    if sorted(flags) != sorted(set(ref_idx)):
        out.violate("C07.c", "sampled-flag", f"sampled flags on {flags}, selection {ref_idx}")

    # ---- C07.g the same holds when the call continues from the cards selected so far
    if idx == ref_idx:
        prev = list(idx)
        thr0 = {cid: con.sample_threshold for cid, con in contests.items()}
        flags0 = [c.sampled for c in cvrs]
        for step, sz in enumerate(case.get("sizes_next", [])):
            for cid, con in contests.items():
                con.sample_size = np.int64(sz[cid]) if as_np else sz[cid]
            r_idx, r_thr, _r_per = reference(cards, nums, sz)
            out.units["sampler_calls"] += 1
            try:
                got = [int(i) for i in ns.CVR.consistent_sampling(cvr_list=cvrs, contests=contests, sampled_cvr_indices=list(prev))]
            except Exception as e:
                out.raised("consistent_sampling(continue)", e)
                out.violate("C07.g", f"continue/raised-{type(e).__name__}", f"continuing from {prev} to sizes {sz} raised {e!r}")
                break
            out.ev("continued", got)
            out.shape("continue")
            if len(got) > len(prev):
                out.nontrivial = True
                out.probe("continued call added cards")
            if got != r_idx:
                out.violate("C07.g", "continue/selection" if sorted(got) != sorted(r_idx) else "continue/order",
                            f"continuing from {prev} to sizes {sz} selected {got}; the union of per-contest prefixes is {r_idx}")
                break
            bad_thr = [c for c in r_thr if contests[c].sample_threshold != r_thr[c]]
            if bad_thr:
                out.violate("C07.g", "continue/threshold", f"after continuing to sizes {sz} the threshold of {bad_thr[0]} is "
                                                           f"{contests[bad_thr[0]].sample_threshold}, its n-th card has {r_thr[bad_thr[0]]}")
                break
            if sorted(i for i, c in enumerate(cvrs) if c.sampled) != sorted(r_idx):
                out.violate("C07.g", "continue/sampled-flag", "sampled flags do not match the continued selection")
                break
            prev = got
        # a contest that needs no more cards is left out of the next call (the audit goes on for the others): the cards
        # already examined stay in the sample, and the whole list comes back in sample-number order
        if len(contests) >= 2 and prev and case.get("drop_contest"):
            gone = sorted(contests)[case["drop_contest"] % len(contests)]
            rest = {cid: con for cid, con in contests.items() if cid != gone}
            sz_rest = {cid: con.sample_size for cid, con in rest.items()}
            r_idx, r_thr, _p = reference(cards, nums, {cid: int(v) for cid, v in sz_rest.items()})
            want = sorted(set(prev) | set(r_idx), key=lambda i: nums[i])
            out.units["sampler_calls"] += 1
            try:
                got = [int(i) for i in ns.CVR.consistent_sampling(cvr_list=cvrs, contests=rest, sampled_cvr_indices=list(prev))]
                out.ev("continued-without", [gone, got])
                out.probe("continued call without a contest that needs no more cards")
                if got != want:
                    out.violate("C07.g", "continue/contest-left-out" + ("" if sorted(got) != sorted(want) else "/order"),
                                f"continuing from {prev} without contest {gone} gave {got}; the cards already examined plus the "
                                f"remaining contests' prefixes, in sample-number order, are {want}")
            except Exception as e:
                out.raised("consistent_sampling(continue, contest left out)", e)
                out.violate("C07.g", f"continue/contest-left-out/raised-{type(e).__name__}", f"continuing without contest {gone} raised {e!r}")
        for cid, con in contests.items():  # back to the state after the first call (clauses e, f look at it)
            con.sample_size = sizes[cid]
            con.sample_threshold = thr0[cid]
        for c, f in zip(cvrs, flags0):
            c.sampled = f

    # ---- C07.h a fresh draw with other numbers on the same Contest objects and the same list object
    rd = case.get("redraw")
    if rd and idx == ref_idx:
        keep_nums = [c.sample_num for c in cvrs]
        keep_thr = {cid: con.sample_threshold for cid, con in contests.items()}
        keep_flags = [c.sampled for c in cvrs]
        order_now = list(range(len(cvrs)))
        lst = cvrs  # the same list object throughout
        if rd["sort_first"]:
            pos = sorted(range(len(lst)), key=lambda i: lst[i].sample_num)
            ns.CVR.sort_cvr_sample_num(lst)
            order_now = pos
            out.probe("list sorted in place between draws")
        cards_now = [cards[i] for i in order_now]
        new_nums = [rd["numbers"][i] for i in order_now]
        for c, n in zip(lst, new_nums):
            c.sample_num = n
        for cid, con in contests.items():
            con.sample_size = min(rd["sizes"].get(cid, 0), sum(1 for c in cards_now if cid in c["votes"]))
        sz2 = {cid: con.sample_size for cid, con in contests.items()}
        r_idx, r_thr, _ = reference(cards_now, new_nums, sz2)
        out.units["sampler_calls"] += 1
        try:
            got = [int(i) for i in ns.CVR.consistent_sampling(cvr_list=lst, contests=contests)]
            out.ev("redrawn", got)
            out.shape("redraw")
            out.probe("second draw on the same contests with new numbers")
            if got != r_idx:
                out.violate("C07.h", "redraw/selection" if sorted(got) != sorted(r_idx) else "redraw/order",
                            f"a fresh draw with new sample numbers on the same contests selected {got}; the union of "
                            f"per-contest prefixes is {r_idx} (sizes {sz2}, list sorted in place first: {rd['sort_first']})")
            else:
                bad = [c for c in r_thr if contests[c].sample_threshold != r_thr[c]]
                if bad:
                    out.violate("C07.h", "redraw/threshold", f"after a fresh draw with new numbers the threshold of {bad[0]} is "
                                                             f"{contests[bad[0]].sample_threshold}, its n-th card has {r_thr[bad[0]]}")
        except Exception as e:
            out.raised("consistent_sampling(redraw)", e)
            out.violate("C07.h", f"redraw/raised-{type(e).__name__}", f"a fresh draw with new numbers raised {e!r}")
        # restore list order, numbers and state for the clauses below
        if rd["sort_first"]:
            inv = [None] * len(lst)
            for new_pos, old_i in enumerate(order_now):
                inv[old_i] = lst[new_pos]
            lst[:] = inv
        for c, n, f in zip(lst, keep_nums, keep_flags):
            c.sample_num = n
            c.sampled = f
        for cid, con in contests.items():
            con.sample_size = sizes[cid]
            con.sample_threshold = keep_thr[cid]

    # ---- C07.j a contest is added in place to cards that did not list it (a contest joins the audit, the ONEAudit pooling
    # step) after the same objects were already drawn from: selection depends on what each card lists *now*
    lc = case.get("late_contest")
    if lc and idx == ref_idx:
        lcid = lc["cid"]
        who = [i for i in lc["cards"] if i < len(cvrs) and lcid not in cvrs[i].votes]
        if who and lcid in contests:
            keep_thr = {cid: con.sample_threshold for cid, con in contests.items()}
            keep_flags = [c.sampled for c in cvrs]
            for i in who:
                cvrs[i].votes[lcid] = {}
            cards_now = [dict(c, votes=dict(c["votes"], **({lcid: {}} if i in who else {}))) for i, c in enumerate(cards)]
            sz3 = dict(sizes)
            sz3[lcid] = min(sum(1 for c in cards_now if lcid in c["votes"]), sizes[lcid] + lc["more"])
            for cid, con in contests.items():
                con.sample_size = sz3[cid]
            r_idx, r_thr, _ = reference(cards_now, nums, sz3)
            out.units["sampler_calls"] += 1
            out.probe("contest added in place to cards already drawn from")
            try:
                got = [int(i) for i in ns.CVR.consistent_sampling(cvr_list=cvrs, contests=contests)]
                out.ev("late-contest", got)
                out.shape("late-contest")
                if got != r_idx:
                    out.violate("C07.j", "late-contest/selection" if sorted(got) != sorted(r_idx) else "late-contest/order",
                                f"after contest {lcid} was added in place to cards {who} the draw selected {got}; the union of "
                                f"per-contest prefixes is {r_idx} (sizes {sz3})")
                else:
                    bad = [c for c in r_thr if contests[c].sample_threshold != r_thr[c]]
                    if bad:
                        out.violate("C07.j", "late-contest/threshold", f"after contest {lcid} was added in place the threshold of {bad[0]} is "
                                                                       f"{contests[bad[0]].sample_threshold}, its n-th card has {r_thr[bad[0]]}")
            except Exception as e:
                out.raised("consistent_sampling(late contest)", e)
                out.violate("C07.j", f"late-contest/raised-{type(e).__name__}", f"drawing after a contest was added in place raised {e!r}")
            for i in who:
                del cvrs[i].votes[lcid]
            for c, f in zip(cvrs, keep_flags):
                c.sampled = f
            for cid, con in contests.items():
                con.sample_size = sizes[cid]
                con.sample_threshold = keep_thr[cid]

    # ---- C07.i phantoms made by the library (which records Contest.cvrs), then sizes beyond the number of real CVRs
    lp = case.get("lib_phantoms")
    real = [c for c in cards if not c.get("phantom")]
    if lp and real:
        w2 = {"use_style": True, "max_cards": len(real) + max(lp["shortfall"].values()), "contests": copy.deepcopy(case["contests"])}
        for cid, cs in w2["contests"].items():
            cs["cards"] = sum(1 for c in real if cid in c["votes"]) + lp["shortfall"][cid]
        a2 = W.mk_audit(ns, w2)
        con2 = W.mk_contests(ns, w2, with_assertions=False)
        try:
            with W.quiet():
                lst2, _n = ns.CVR.make_phantoms(audit=a2, contests=con2, cvr_list=W.mk_cvrs(ns, real), prefix="phantom-1-")
                ns.CVR.assign_sample_nums(lst2, ns.SHA256(lp["seed"]))
            cards2 = [{"votes": dict(c.votes)} for c in lst2]
            nums2 = [c.sample_num for c in lst2]
            sz = {}
            for cid, con in con2.items():
                avail = sum(1 for c in cards2 if cid in c["votes"])
                n_real = sum(1 for c in real if cid in c["votes"])
                sz[cid] = min(avail, n_real + lp["extra"][cid]) if avail else 0
                con.sample_size = sz[cid]
                if sz[cid] > n_real:
                    out.probe("size beyond the number of real CVRs (phantoms needed)")
            r_idx, r_thr, _ = reference(cards2, nums2, sz)
            got = [int(i) for i in ns.CVR.consistent_sampling(cvr_list=lst2, contests=con2)]
            out.ev("lib-phantoms", [sz, got])
            out.units["sampler_calls"] += 1
            if got != r_idx:
                out.violate("C07.i", "lib-phantoms/selection", f"with phantoms made by make_phantoms and sizes {sz} the sampler "
                                                               f"selected {got}; the union of per-contest prefixes is {r_idx}")
            elif any(con2[c].sample_threshold != r_thr[c] for c in r_thr):
                out.violate("C07.i", "lib-phantoms/threshold", f"thresholds {[(c, con2[c].sample_threshold) for c in r_thr]} expected {r_thr}")
        except Exception as e:
            out.raised("make_phantoms+consistent_sampling", e)
            out.violate("C07.i", f"lib-phantoms/raised-{type(e).__name__}", f"sampling after make_phantoms raised {e!r}")

    # ---- C07.d numbering is a function of (seed, position) only
    if case["numbering"]["mode"] in ("sha256", "sched"):
        other = W.mk_cvrs(ns, case["alt"])
        extra = W.mk_cvrs(ns, [{"id": "extra", "votes": {}}])
        if case["numbering"]["mode"] == "sha256":
            ns.CVR.assign_sample_nums(other[: max(1, len(other) // 2)], ns.SHA256(case["numbering"]["seed"]))
            part = [c.sample_num for c in other[: max(1, len(other) // 2)]]
            ns.CVR.assign_sample_nums(other + extra, ns.SHA256(case["numbering"]["seed"]))
            if [c.sample_num for c in other] != nums or part != nums[: len(part)]:
                out.violate("C07.d", "numbering", "same seed, other ids/votes/list length: different sample numbers")
            # the documented generator: number at position i is int(SHA256(seed) i-th output)
            ref_prng = ns.SHA256(case["numbering"]["seed"])
            expect = [ns.int_from_hash(ref_prng.nextRandom()) for _ in nums]
            if expect != nums:
                out.violate("C07.d", "numbering-stream", "numbers are not the generator's successive outputs")
        else:
            ns.CVR.assign_sample_nums(other, SchedPrng(case["numbering"]["numbers"]))
            if [c.sample_num for c in other] != nums or nums != list(case["numbering"]["numbers"]):
                out.violate("C07.d", "numbering", "numbers depend on something besides the generator and position")

    # ---- C07.e selection depends on records only through the contests they list
    cvrs2 = W.mk_cvrs(ns, [{"id": a["id"], "votes": a["votes"], "phantom": False} for a in case["alt"]])
    for c2, n in zip(cvrs2, nums):
        c2.sample_num = n
    contests2 = W.mk_contests(ns, world, with_assertions=False)
    for cid, con in contests2.items():
        con.sample_size = sizes[cid]
    try:
        idx2 = [int(i) for i in ns.CVR.consistent_sampling(cvr_list=cvrs2, contests=contests2)]
        out.faults["votes/ids/phantom flags replaced"] += 1
        if idx2 != idx or any(contests2[c].sample_threshold != contests[c].sample_threshold for c in contests):
            out.violate("C07.e", "vote-dependence", f"selection changed from {idx} to {idx2} when only vote "
                                                   f"contents, ids and flags changed")
    except Exception as e:
        out.raised("consistent_sampling(alt)", e)
        out.violate("C07.e", f"raised-{type(e).__name__}", f"sampler raised {e!r} on records with other contents")

    # ---- C07.f the data each assertion sees are exactly its contest's n_c cards, in order
    if idx == ref_idx and all(contests[c].sample_threshold == ref_thr[c] for c in ref_thr):
        with W.quiet():
            try:
                ns.Assertion.set_all_margins_from_cvrs(audit=audit, contests=contests, cvr_list=cvrs)
            except Exception as e:
                out.raised("set_all_margins_from_cvrs", e)
                return out
        mvr_specs = []
        for i in idx:
            src = case["alt"][i] if case["mvr_from_alt"] else cards[i]
            votes = copy.deepcopy(src["votes"])
            ph = i in case.get("mvr_phantom", []) or bool(cards[i].get("phantom"))
            if ph:
                votes = {}
                out.fault("F1 card cannot be found")
            elif str(i) in case.get("mvr_drop", {}) and case["mvr_drop"][str(i)] in votes:
                del votes[case["mvr_drop"][str(i)]]
                out.fault("F4 manual record lacks contest")
            mvr_specs.append({"id": cards[i]["id"], "votes": votes, "phantom": ph})
        mvrs = W.mk_cvrs(ns, mvr_specs)
        cvr_sample = [cvrs[i] for i in idx]
        mvr_of = {m.id: m for m in mvrs}
        if case["pipeline"] and idx:
            batches = sorted({tuple(c["id"].split("-")[:2]) for c in cards if not c.get("phantom")})
            man = pd.DataFrame([{"Tray #": 1, "Tabulator Number": t, "Batch Number": b, "Total Ballots": 7,
                                 "VBMCart.Cart number": 1} for t, b in batches] or
                               [{"Tray #": 1, "Tabulator Number": "0", "Batch Number": "0", "Total Ballots": 0,
                                 "VBMCart.Cart number": 1}])
            for col in ["Tray #", "Tabulator Number", "Batch Number", "VBMCart.Cart number"]:
                man[col] = man[col].astype(str)
            try:
                _cards, sample_order, cvr_sample, _ph = ns.Dominion.sample_from_cvrs(cvrs, man, idx)
                # auditors hand records back in their own order
                ro = [j for j in case["return_order"] if j < len(mvrs)]
                ro += [j for j in range(len(mvrs)) if j not in ro]
                shuffled = [mvrs[j] for j in ro]
                if ro != sorted(ro):
                    out.fault("F6 records returned out of order")
                    out.probe("records returned out of order")
                cvr_sample = list(reversed(cvr_sample))
                ns.CVR.prep_comparison_sample(shuffled, cvr_sample, sample_order)
                mvrs = shuffled
            except Exception as e:
                out.raised("sample_from_cvrs/prep_comparison_sample", e)
                out.violate("C07.f", f"pipeline-raised-{type(e).__name__}", f"lookup/ordering raised {e!r}")
                return out
        for cid, con in contests.items():
            if sizes[cid] == 0:
                continue
            for key, asn in sorted(con.assertions.items()):
                try:
                    d, _u = asn.mvrs_to_data(mvrs, cvr_sample)
                    exp = [asn.overstatement_assorter(mvr_of[cards[i]["id"]], cvrs[i], use_style=True)
                           for i in ref_per[cid]]
                except Exception as e:
                    out.raised("mvrs_to_data", e)
                    out.violate("C07.f", f"raised-{type(e).__name__}", f"mvrs_to_data raised {e!r}")
                    continue
                out.ev("data", [cid, key, [float(x) for x in d]])
                if len(d) != len(exp) or any(not tight(a, b) for a, b in zip(d, exp)):
                    out.violate("C07.f", "data", f"assertion {key} of {cid} sees {len(d)} values "
                                                 f"{[float(x) for x in d][:8]}; its {sizes[cid]} cards give "
                                                 f"{[float(x) for x in exp][:8]}")
        out.units["assertion_data_sequences"] += sum(len(c.assertions) for c in contests.values())
        # ---- C07.f again: a corrected export.  The same Contest objects, a new list of records with the same numbers in
        # which one already-sampled card turns out to list one more contest (before that contest's cut-off); the contest
        # is given one card more, so its cut-off, and the sample as a whole, are what they were - but its data are not
        pick = None
        for cid in sorted(contests):
            if sizes[cid] == 0 or cid not in ref_thr:
                continue
            for i in idx:
                if cid not in cards[i]["votes"] and nums[i] < ref_thr[cid] and not cards[i].get("phantom"):
                    pick = (cid, i)
                    break
            if pick:
                break
        if pick and case.get("corrected_export", True):
            cidx, i_star = pick
            cards_b = copy.deepcopy(cards)
            cards_b[i_star]["votes"][cidx] = {}
            sizes_b = dict(sizes)
            sizes_b[cidx] = sizes[cidx] + 1
            cvrs_b = W.mk_cvrs(ns, cards_b)
            for c_, n_ in zip(cvrs_b, nums):
                c_.sample_num = n_
            rb_idx, rb_thr, rb_per = reference(cards_b, nums, sizes_b)
            keep_state = {cid: (con.sample_size, con.sample_threshold) for cid, con in contests.items()}
            try:
                with W.quiet():
                    for cid, con in contests.items():
                        con.sample_size = sizes_b[cid]
                    idx_b = [int(i) for i in ns.CVR.consistent_sampling(cvr_list=cvrs_b, contests=contests)]
                    ns.Assertion.set_all_margins_from_cvrs(audit=audit, contests=contests, cvr_list=cvrs_b)
                out.probe("corrected export: same contests, new records, one sampled card lists one more contest")
                if idx_b == rb_idx:
                    mvrs_b = W.mk_cvrs(ns, [dict(spec) for spec in mvr_specs]) if idx_b == idx else None
                    if mvrs_b is not None:
                        mvr_of_b = {m.id: m for m in mvrs_b}
                        sample_b = [cvrs_b[i] for i in idx_b]
                        for cid, con in contests.items():
                            if sizes_b[cid] == 0:
                                continue
                            for key, asn in sorted(con.assertions.items()):
                                with W.quiet():
                                    d, _u = asn.mvrs_to_data(mvrs_b, sample_b)
                                    exp = [asn.overstatement_assorter(mvr_of_b[cards_b[i]["id"]], cvrs_b[i], use_style=True)
                                           for i in rb_per[cid]]
                                if len(d) != len(exp) or any(not tight(a, b) for a, b in zip(d, exp)):
                                    out.violate("C07.f", "data/corrected-export",
                                                f"after a corrected export (card {cards[i_star]['id']} also lists {cidx}) assertion {key} of "
                                                f"{cid} sees {len(d)} values {[float(x) for x in d][:8]}; its {sizes_b[cid]} cards give "
                                                f"{[float(x) for x in exp][:8]}")
            except Exception as e:
                out.raised("corrected export", e)
            for cid, con in contests.items():
                con.sample_size, con.sample_threshold = keep_state[cid]
    return out


# --------------------------------------------------------------------------- shrinking
def _clamp(case):
    for cid in case["sizes"]:
        avail = sum(1 for c in case["cards"] if cid in c["votes"])
        case["sizes"][cid] = min(case["sizes"][cid], avail)
        lo = case["sizes"][cid]
        for sz in case.get("sizes_next", []):
            sz[cid] = max(lo, min(sz[cid], avail))
            lo = sz[cid]
    return case


def reducers(case):
    n = len(case["cards"])
    # drop a card
    for i in reversed(range(n)):
        if n <= 1:
            break
        c = copy.deepcopy(case)
        del c["cards"][i]
        del c["alt"][i]
        if "numbers" in c["numbering"]:
            del c["numbering"]["numbers"][i]
        c["return_order"] = [j for j in c["return_order"] if j < n - 1]
        if c.get("redraw"):
            del c["redraw"]["numbers"][i]
        if c.get("late_contest"):
            c["late_contest"]["cards"] = [j - (j > i) for j in c["late_contest"]["cards"] if j != i]
        if c.get("p_values"):
            del c["p_values"][i]
        c["mvr_phantom"] = [j - (j > i) for j in c.get("mvr_phantom", []) if j != i]
        c["mvr_drop"] = {str(int(j) - (int(j) > i)): v for j, v in c.get("mvr_drop", {}).items() if int(j) != i}
        yield _clamp(c)
    for j in reversed(range(len(case.get("sizes_next", [])))):
        c = copy.deepcopy(case)
        del c["sizes_next"][j]
        yield c
    # drop a contest
    for cid in list(case["contests"]):
        if len(case["contests"]) <= 1:
            break
        c = copy.deepcopy(case)
        del c["contests"][cid]
        del c["sizes"][cid]
        for sz in c.get("sizes_next", []):
            sz.pop(cid, None)
        if c.get("redraw"):
            c["redraw"]["sizes"].pop(cid, None)
        if c.get("late_contest") and c["late_contest"]["cid"] == cid:
            c["late_contest"] = None
        if c.get("lib_phantoms"):
            c["lib_phantoms"]["shortfall"].pop(cid, None)
            c["lib_phantoms"]["extra"].pop(cid, None)
        for lst in (c["cards"], c["alt"]):
            for card in lst:
                card["votes"].pop(cid, None)
        yield c
    # smaller sizes
    for cid, s in case["sizes"].items():
        if s > 0:
            c = copy.deepcopy(case)
            c["sizes"][cid] = s - 1
            yield _clamp(c)
    # simpler numbering
    if case["numbering"]["mode"] != "direct":
        ns = R.load()
        cv = W.mk_cvrs(ns, case["cards"])
        assign(ns, cv, case["numbering"])
        c = copy.deepcopy(case)
        c["numbering"] = {"mode": "direct", "numbers": [x.sample_num for x in cv]}
        yield c
    else:
        nums = case["numbering"]["numbers"]
        ranks = {v: r for r, v in enumerate(sorted(nums))}
        if [ranks[v] for v in nums] != list(nums):
            c = copy.deepcopy(case)
            c["numbering"]["numbers"] = [ranks[v] for v in nums]
            yield c
    for key in ("redraw", "lib_phantoms"):
        if case.get(key):
            c = copy.deepcopy(case)
            c[key] = None
            yield c
    if case.get("mvr_phantom"):
        c = copy.deepcopy(case)
        c["mvr_phantom"] = []
        yield c
    if case.get("mvr_drop"):
        c = copy.deepcopy(case)
        c["mvr_drop"] = {}
        yield c
    for flag in ("pipeline", "mvr_from_alt"):
        if case[flag]:
            c = copy.deepcopy(case)
            c[flag] = False
            yield c
    # empty the votes
    for i, card in enumerate(case["cards"]):
        if any(card["votes"].values()):
            c = copy.deepcopy(case)
            c["cards"][i]["votes"] = {k: {} for k in card["votes"]}
            yield c
