"""C10 - escalation only ever extends the evidence.

AuditWorld runs whole multi-round audits: non-decreasing per-contest sizes, redraw and continue
variants of every later round, optionally with the audit state rebuilt between rounds, manual
records with faults.  Oracle over the recorded history: supersets, prefix-extension of every
assertion's data, monotone risk, sticky confirmation."""
import copy

from auditsim import repo as R
from auditsim import world as W
from auditsim import gen as G
from auditsim.driver import AuditRun
from auditsim.log import Outcome, same, tight

PROP = "C10"
TIERS = {
    "quick": {"runs": 15000, "chunk": 100, "max_cards": 40},
    "thorough": {"budget_s": 900, "chunk": 100, "max_cards": 150},
}
RULE = ("one run = one seeded election (cards, styles, CVRs with lost cards, pooled batches), one fault plan for the "
        "auditors and one schedule of 2-6 rounds (non-decreasing sizes; redraw / continue / rebuilt state) executed on "
        "the real pipeline; non-trivial = at least two rounds in which some contest's sample grew and some p-value "
        "moved off 1; distinct = distinct event-log digest")
ASSUMPTIONS = [
    "comparison/ONEAudit rounds use style-based sampling, or style off only when every CVR lists every contest (DESIGN 4, C10 domain)",
    "polling has no CVRs: round r samples the first n_r entries of one seeded permutation of manifest positions (stub), so C10.a is trivial there",
    "an auditor's record of a card does not change between rounds",
    "tests run with random_order=True (the library's setting for audits)",
    "a round in which the real code raises ends the run; nothing after it is judged",
    "a NaN measured risk is read as 1 (confirms nothing)",
]
COMPONENTS = {
    "real": ["CVR.make_phantoms", "CVR.pool_contests/add_pool_contests", "Contest.check_cards", "Assertion.make_all_assertions",
             "Assorter.set_tally_pool_means", "Assertion.set_all_margins_from_cvrs", "CVR.assign_sample_nums",
             "CVR.consistent_sampling (redraw and continue)", "Dominion.sample_from_cvrs", "Dominion.sample_from_manifest",
             "CVR.prep_comparison_sample", "CVR.prep_polling_sample", "Assertion.mvrs_to_data", "Assertion.set_p_values",
             "Audit.summarize_status", "NonnegMean tests", "cryptorandom.SHA256"],
    "stub": ["election (ballots, styles, batches)", "voting system (CVRs, lost CVRs, pooling)", "auditors (transcription faults, "
             "unfindable cards, return order)", "manifest", "scheduler-owned prng in 'sched' mode"],
}
PROBES = ["threshold moved between rounds", "card skipped then taken later", "continue round", "redraw round",
          "assertion confirmed in an early round", "sample grew", "phantom CVR sampled", "phantom batch hit",
          "rebuilt state", "risk checked after every single observation"]


def generate(rng, tier):
    cfg = TIERS[tier]
    case = G.gen_case(rng, max_cards=cfg["max_cards"], max_rounds=6, allow_style_off=True)
    tally_ok = (case["world"]["audit_type"] != W.POLLING and
                all(c["choice_function"] in (W.PLURALITY, W.APPROVAL) for c in case["world"]["contests"].values()))
    case["margins_via_tally"] = bool(tally_ok and rng.chance(0.4))
    if case["margins_via_tally"]:
        for r, rnd in enumerate(case["rounds"]):
            rnd["retally"] = bool(r > 0 and rng.chance(0.4))
    case["finer_rounds"] = rng.chance(0.15)
    if len(case["rounds"]) < 2:
        r0 = case["rounds"][0]
        r1 = copy.deepcopy(r0)
        r1["frac"] = {k: min(1.0, v + rng.pick([0.1, 0.3, 1.0])) for k, v in r0["frac"].items()}
        r1["variant"] = rng.pick(["redraw", "continue"])
        r1["shuffle"] = rng.getrandbits(32)
        case["rounds"].append(r1)
    return case


class Oracle:
    def __init__(self, out):
        self.out = out
        self.prev_thr = None
        self.grew = 0

    def after_rebuild(self, run, r):
        self.out.probe("rebuilt state")

    def after_draw(self, run, r, idx, prev, sizes):
        out = self.out
        variant = run.case["rounds"][r]["variant"]
        out.probe("continue round" if variant == "continue" and r > 0 else "redraw round")
        if run.polling:
            return
        if len(set(idx)) != len(idx):
            out.violate("C10.a", f"{variant}/repeated-card", f"round {r} ({variant}) selects a card twice: {idx}")
        if prev is not None:
            missing = [i for i in prev if i not in set(idx)]
            if missing:
                out.violate("C10.a", f"{variant}/not-superset",
                            f"round {r} ({variant}) drops previously selected cards {missing[:8]}; sizes {sizes}")
            if len(set(idx)) > len(set(prev)):
                out.probe("sample grew")
                self.grew += 1
                nums = [run.cvr_list[i].sample_num for i in idx if i not in set(prev)]
                if prev and nums and min(nums) < max(run.cvr_list[i].sample_num for i in prev):
                    out.probe("card skipped then taken later")
        thr = {cid: con.sample_threshold for cid, con in run.contests.items()}
        if self.prev_thr is not None and any(thr[c] != self.prev_thr.get(c) for c in thr):
            out.probe("threshold moved between rounds")
        self.prev_thr = thr

    def after_data(self, run, r, data):
        out = self.out
        if r == 0:
            return
        before = run.data_hist[r - 1]
        variant = run.case["rounds"][r]["variant"]
        for k, (d, _u) in sorted(data.items()):
            if k not in before:
                continue
            d0 = before[k][0]
            if len(d) < len(d0) or any(not tight(a, b) for a, b in zip(d0, d)):
                out.violate("C10.b", f"{variant}/{run.world['audit_type']}",
                            f"data of assertion {k} in round {r} ({variant}) {d[:10]} do not begin with the "
                            f"previous round's {d0[:10]}")
            elif len(d) > len(d0) and run.polling:
                self.grew += 1
                out.probe("sample grew")

    def finer_rounds(self, run, r):
        """any cut of the same data into more rounds is also an audit history: the measured risk after the first n
        observations must be non-increasing in n.  Run when the recorded history shows that earlier entries moved
        (cheap trigger), and for a fixed share of short histories."""
        import numpy as np
        out = self.out
        data = run.data_hist[r]
        for (cid, key), (d, u) in sorted(data.items()):
            asn = run.contests[cid].assertions[key]
            if len(d) < 2 or len(d) > 80:
                continue
            moved = False
            if r > 0 and (cid, key) in self.hist_prev:
                h0 = self.hist_prev[(cid, key)]
                h1 = [float(v) for v in asn.p_history]
                if len(h1) >= len(h0) and any(not tight(a, b) for a, b in zip(h0[:-1], h1)):
                    moved = True
                    out.probe("earlier history entries moved between rounds")
            if not (moved or run.case.get("finer_rounds")):
                continue
            out.probe("risk checked after every single observation")
            prev = None
            for n in range(1, len(d) + 1):
                try:
                    with W.quiet():
                        p = float(W.clone_test(run.ns, asn.test, u).test(np.array(d[:n]))[0])
                except Exception:
                    break
                pe = 1.0 if p != p else p
                if prev is not None and not (pe <= prev * (1 + 1e-12) + 1e-300):
                    out.violate("C10.c", f"finer/{run.world['contests'][cid]['test']}",
                                f"assertion {(cid, key)}: measured risk after {n - 1} observations {prev!r}, after {n} observations "
                                f"{p!r} (same data, one more card)")
                    break
                prev = pe

    def after_pvalues(self, run, r, p_max, done):
        out = self.out
        if not hasattr(self, "hist_prev"):
            self.hist_prev = {}
        self.finer_rounds(run, r)
        self.hist_prev = {(cid, key): [float(v) for v in asn.p_history] for cid, con in run.contests.items()
                          for key, asn in con.assertions.items()}
        if r == 0:
            return
        variant = run.case["rounds"][r]["variant"]
        ps, ps0 = run.p_hist[r], run.p_hist[r - 1]
        for k, p in sorted(ps.items()):
            p0 = ps0.get(k)
            if p0 is None:
                continue
            if p0 <= run.world["contests"][k[0]]["risk_limit"]:
                out.probe("assertion confirmed in an early round")
            # a NaN "risk" confirms nothing: it is as bad as 1 (its being NaN at all is C11's business)
            pe = 1.0 if p != p else p
            pe0 = 1.0 if p0 != p0 else p0
            if not (pe <= pe0 * (1 + 1e-12) + 1e-300):
                out.violate("C10.c", f"{variant}/{run.world['contests'][k[0]]['test']}" + ("/became-nan" if p != p else ""),
                            f"measured risk of assertion {k} rose from {p0!r} to {p!r} in round {r} ({variant})")
        if r not in run.rebuilt:
            pr, pr0 = run.proved_hist[r], run.proved_hist[r - 1]
            for k in sorted(pr):
                if pr0.get(k) and not pr[k]:
                    out.violate("C10.d", "unconfirmed", f"assertion {k} was confirmed after round {r - 1} and is not after round {r}")
        if self.grew >= 1 and any(p < 1 for p in ps.values()):
            out.nontrivial = True


def execute(case):
    ns = R.load()
    out = Outcome()
    run = AuditRun(ns, case, out, observers=[Oracle(out)])
    run.run()
    out.nontrivial = bool(out.nontrivial and len(run.p_hist) >= 2)
    return out


def reducers(case):
    yield from G.reducers(case)
