#!/venv/bin/python
"""setup_cmd: nothing is built or installed; verify the interpreter and that the repository's own
dependencies and the working tree resolve."""
import os
import sys
import warnings

warnings.filterwarnings("ignore")
sys.path.insert(0, os.path.dirname(os.path.abspath(__file__)))
from auditsim import repo  # noqa: E402

ns = repo.load()
import numpy, pandas, scipy  # noqa: E401,E402

print("python", sys.version.split()[0], "numpy", numpy.__version__, "pandas", pandas.__version__, "repo", repo.REPO,
      "head", repo.revision())
os.makedirs(os.path.join(os.path.dirname(os.path.abspath(__file__)), "evidence"), exist_ok=True)
os.makedirs(os.path.join(os.path.dirname(os.path.abspath(__file__)), "replays"), exist_ok=True)
