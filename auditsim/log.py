"""Event log, canonical form, digests, and the Outcome every simulated run returns."""
import hashlib
import json
import math
from collections import Counter

import numpy as np


def canon(o):
    """JSON-able, order-independent (dict keys sorted at dump time, sets sorted), bit-exact floats."""
    if o is None or isinstance(o, (bool, str)):
        return o
    if isinstance(o, (np.bool_,)):
        return bool(o)
    if isinstance(o, (int, np.integer)):
        return int(o)
    if isinstance(o, (float, np.floating)):
        f = float(o)
        if math.isnan(f):
            return "nan"
        if math.isinf(f):
            return "inf" if f > 0 else "-inf"
        return "f:" + f.hex()
    if isinstance(o, np.ndarray):
        return [canon(x) for x in o.tolist()]
    if isinstance(o, dict):
        return {str(k): canon(v) for k, v in o.items()}
    if isinstance(o, (set, frozenset)):
        return sorted((canon(x) for x in o), key=lambda x: json.dumps(x, sort_keys=True))
    if isinstance(o, (list, tuple)):
        return [canon(x) for x in o]
    return "obj:" + type(o).__name__


def dumps(o) -> str:
    return json.dumps(canon(o), sort_keys=True, separators=(",", ":"))


def digest(o) -> str:
    return hashlib.sha256(dumps(o).encode()).hexdigest()


def plain(o):
    """JSON-able with human-readable floats (for replay files / evidence samples)."""
    if o is None or isinstance(o, (bool, str)):
        return o
    if isinstance(o, np.bool_):
        return bool(o)
    if isinstance(o, (int, np.integer)):
        return int(o)
    if isinstance(o, (float, np.floating)):
        f = float(o)
        if math.isnan(f) or math.isinf(f):
            return repr(f)
        return f
    if isinstance(o, np.ndarray):
        return [plain(x) for x in o.tolist()]
    if isinstance(o, dict):
        return {str(k): plain(v) for k, v in o.items()}
    if isinstance(o, (set, frozenset)):
        return sorted(plain(x) for x in o)
    if isinstance(o, (list, tuple)):
        return [plain(x) for x in o]
    return repr(o)


class Outcome:
    """What one simulated run produced.

    events     ordered list of (kind, payload) - operations issued to the real code, faults fired,
               values observed.  Its digest is the run's identity for the determinism self-test.
    coarse     list of strings - the run's *shape* (operation kinds, fault kinds, outcome classes,
               no numbers); the number of distinct coarse digests is the reported interleaving measure
    faults     Counter of fault kinds that actually changed what the real code saw
    probes     Counter of rare-branch probes hit
    units      Counter of simulated time in the system's own units (draws, rounds, calls ...)
    violations list of dicts {clause, sig, msg}
    exceptions Counter of exception types raised by the real code (observations, not verdicts)
    nontrivial did anything interesting happen (a fault fired / the statistic moved)?
    """

    __slots__ = ("events", "coarse", "faults", "probes", "units", "violations", "exceptions", "nontrivial")

    def __init__(self):
        self.events = []
        self.coarse = []
        self.faults = Counter()
        self.probes = Counter()
        self.units = Counter()
        self.violations = []
        self.exceptions = Counter()
        self.nontrivial = False

    def ev(self, kind, payload=None):
        self.events.append((kind, payload))

    def shape(self, s):
        self.coarse.append(str(s))

    def fault(self, kind, n=1):
        if n:
            self.faults[kind] += n
            self.nontrivial = True

    def probe(self, name, n=1):
        if n:
            self.probes[name] += n

    def raised(self, where, exc):
        self.exceptions[f"{where}:{type(exc).__name__}"] += 1

    def violate(self, clause, path, msg):
        """clause 'C07.a', path = code-path class; sig = clause/path"""
        sig = f"{clause}/{path}"
        # one entry per signature per run is enough
        for v in self.violations:
            if v["sig"] == sig:
                v["count"] += 1
                return
        self.violations.append({"clause": clause, "sig": sig, "msg": str(msg)[:600], "count": 1})

    def digest(self):
        return digest(self.events)

    def coarse_digest(self):
        return digest(self.coarse)[:16]

    def summary(self):
        return {
            "digest": self.digest(),
            "coarse": self.coarse_digest(),
            "faults": dict(self.faults),
            "probes": dict(self.probes),
            "units": dict(self.units),
            "violations": self.violations,
            "exceptions": dict(self.exceptions),
            "nontrivial": bool(self.nontrivial),
        }


def close(a, b, rel=1e-9, abs_=1e-12):
    """reference-vs-real comparison for numbers computed along different arithmetic paths"""
    a = float(a)
    b = float(b)
    if math.isnan(a) or math.isnan(b):
        return math.isnan(a) and math.isnan(b)
    if math.isinf(a) or math.isinf(b):
        return a == b
    return abs(a - b) <= abs_ + rel * max(1.0, abs(a), abs(b))


def same(a, b):
    """bit-exact equality with NaN == NaN (for 'unchanged' comparisons of real-code results)"""
    a = float(a)
    b = float(b)
    if math.isnan(a) and math.isnan(b):
        return True
    return a == b


def tight(a, b):
    """two real-code results that should agree, but may have been computed with the operations in another order
    (a refactor may change the last bits): relative 1e-12"""
    return close(a, b, rel=1e-12, abs_=1e-15)
