"""Import the real SHANGRLA code from the working tree under VERIF_REPO (default /repo)."""
import os
import subprocess
import sys
import warnings
import hashlib

REPO = os.path.abspath(os.environ.get("VERIF_REPO", "/repo"))

_loaded = None


class HarnessError(Exception):
    """A problem with the machinery itself; never reported as a violation, never as a pass."""


def load():
    """returns a namespace with the real classes; verifies they come from REPO"""
    global _loaded
    if _loaded is not None:
        return _loaded
    if sys.path[0] != REPO:
        sys.path.insert(0, REPO)
    with warnings.catch_warnings():
        warnings.simplefilter("ignore")
        import shangrla  # noqa
        from shangrla.core import Audit as A
        from shangrla.core import NonnegMean as NM
        from shangrla.formats import Dominion as D
        from shangrla.formats import Hart as H
        from cryptorandom.cryptorandom import SHA256, int_from_hash
    f = os.path.abspath(shangrla.__file__)
    if not f.startswith(REPO + os.sep):
        raise HarnessError(f"shangrla imported from {f}, not from {REPO}")

    class NS:
        pass

    ns = NS()
    ns.Audit = A.Audit
    ns.Assertion = A.Assertion
    ns.Assorter = A.Assorter
    ns.Contest = A.Contest
    ns.CVR = A.CVR
    ns.Stratum = A.Stratum
    ns.NonnegMean = NM.NonnegMean
    ns.welford_mean_var = NM.welford_mean_var
    ns.Dominion = D.Dominion
    ns.Hart = H.Hart
    ns.SHA256 = SHA256
    ns.int_from_hash = int_from_hash
    ns.audit_module = A
    ns.nonnegmean_module = NM
    _loaded = ns
    return ns


def revision():
    """(HEAD sha, sha256 of the working-tree diff) of the repository under test"""
    try:
        head = subprocess.run(["git", "-C", REPO, "rev-parse", "HEAD"], capture_output=True, text=True,
                              timeout=30).stdout.strip()
        diff = subprocess.run(["git", "-C", REPO, "diff", "HEAD", "--", "shangrla"], capture_output=True,
                              timeout=30).stdout
        return head, hashlib.sha256(diff).hexdigest()[:16]
    except Exception:  # not a git checkout (scratch copy): hash the sources instead
        h = hashlib.sha256()
        for root, _dirs, files in sorted(os.walk(os.path.join(REPO, "shangrla"))):
            for fn in sorted(files):
                if fn.endswith(".py"):
                    with open(os.path.join(root, fn), "rb") as fh:
                        h.update(fh.read())
        return "no-git", h.hexdigest()[:16]
