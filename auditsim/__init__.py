"""AuditWorld / DrawSim: deterministic simulation of risk-limiting audits run on the
real SHANGRLA code.  See /verif/DESIGN.md."""
