"""DrawSim: an urn, a scheduler that decides the draw order, and the real sequential tests.

Shared by C01 (risk limit: distribution over all orderings) and C05 (non-anticipation: forked
futures).  A configuration is plain data; `make_test` turns it into a real NonnegMean."""
import itertools
import math
import warnings
from fractions import Fraction

import numpy as np

from . import repo as R

INF = "inf"

COMBOS = [
    # (test, estim, bet, modes)
    ("ALPHA_MART", "fixed_alternative_mean", None, ("finite", "iid")),
    ("ALPHA_MART", "shrink_trunc", None, ("finite", "iid")),
    ("ALPHA_MART", "optimal_comparison", None, ("finite", "iid")),
    ("BETTING_MART", None, "fixed_bet", ("finite", "iid")),
    ("BETTING_MART", None, "agrapa", ("finite", "iid")),
    ("KAPLAN_KOLMOGOROV", None, None, ("finite",)),
    ("KAPLAN_MARKOV", None, None, ("iid",)),
    ("KAPLAN_WALD", None, None, ("iid",)),
    ("WALD_SPRT", None, None, ("finite", "iid")),
]


def combo_name(cfg):
    s = cfg["test"]
    if cfg.get("estim"):
        s += "+" + cfg["estim"]
    if cfg.get("bet"):
        s += "+" + cfg["bet"]
    return s


def gen_config(rng, mode=None, combo=None):
    """a configuration inside the documented parameter ranges; dyadic t, u, g so that the null
    boundary (sum == N t) is represented exactly"""
    if combo is None:
        combo = rng.pick([c for c in COMBOS if mode is None or mode in c[3]])
    test, estim, bet, modes = combo
    if mode is None:
        mode = rng.pick(list(modes))
    comparison = estim == "optimal_comparison" or rng.chance(0.25)
    if comparison:
        # comparison-audit geometry: t = 1/2, u = 2/(2-v) in (1,2)
        u = rng.pick([1 + 1 / 64, 1 + 1 / 16, 1.125, 1.25, 1.5, 1.75])
        t = 0.5
    else:
        u = rng.pick([1.0, 1.0, 1.0, 2.0, 0.75, 4.0, 10.0])
        t = rng.pick([x for x in (0.5, 0.25, 0.125, 0.375, 0.625, 1.0, 1.5, 3.0) if x < u])
    kw = {}
    if test in ("ALPHA_MART", "WALD_SPRT") and (estim in (None, "fixed_alternative_mean", "shrink_trunc") or test == "WALD_SPRT"):
        # eta in (t, u)
        kw["eta"] = t + (u - t) * rng.pick([1 / 64, 0.1, 0.25, 0.5, 0.75, 0.9, 63 / 64])
        if test == "WALD_SPRT" and rng.chance(0.3):
            # the SPRT documents its alternative as "float in (0,u)": values at or below the null mean are in range
            kw["eta"] = u * rng.pick([1 / 64, 0.1, 0.25, 0.4]) if rng.chance(0.8) else t
    if estim == "shrink_trunc":
        kw["c"] = rng.pick([0.05, 0.25, 0.5, 1.0])
        kw["d"] = rng.pick([0.5, 1, 10, 100])
        kw["f"] = rng.pick([0, 0, 0.1, 1.0])
        kw["minsd"] = rng.pick([1e-6, 1e-3, 0.1])
    if estim == "optimal_comparison" and rng.chance(0.7):  # (otherwise the estimator's documented default rate)
        kw["rate_error_2"] = rng.pick([0, 1e-5, 1e-4, 1e-3, 1e-2, 0.05, 0.1])
    if bet == "fixed_bet":
        kw["lam"] = rng.pick([0, 0.05, 0.25, 0.5, 0.9, 1.0]) / u  # lambda <= 1/u
    if bet == "agrapa":
        kw["lam"] = rng.pick([0, 0.1, 0.5, 1.0]) / u
        if rng.chance(0.7):  # (otherwise the bettor's documented defaults: c_grapa_0 = c_grapa_max = 1 - eps, no growth)
            c0 = rng.pick([0.1, 0.5, 0.9, 1 - 2 ** -20])
            kw["c_grapa_0"] = c0
            kw["c_grapa_max"] = rng.pick([c0, c0 + (1 - 2 ** -20 - c0) * 0.5, 1 - 2 ** -20])
            kw["c_grapa_grow"] = rng.pick([0, 0.5, 3])
    if test in ("KAPLAN_KOLMOGOROV", "KAPLAN_MARKOV", "KAPLAN_WALD"):
        kw["g"] = rng.pick([0, 0.0625, 0.125, 0.5, 0.875])
    random_order = True
    if test in ("KAPLAN_KOLMOGOROV", "KAPLAN_MARKOV", "KAPLAN_WALD") and rng.chance(0.3):
        random_order = False
    if test == "WALD_SPRT" and mode == "iid" and rng.chance(0.3):
        random_order = False
    cfg = {"test": test, "estim": estim, "bet": bet, "u": u, "t": t, "mode": mode, "kwargs": kw,
           "random_order": random_order}
    if rng.chance(0.3):
        # the way the audit code configures its tests: built with some other bound (the default 1, the assorter's own),
        # the bound in force assigned afterwards (test.u = ...)
        cfg["u_init"] = rng.pick([1.0, 1.0, 2 * u, u / 2 if u / 2 > t else 4 * u])
    return cfg


def make_test(ns, cfg, N):
    from .world import test_fn, estim_fn, bet_fn
    n = np.inf if (N == INF or N is None) else int(N)
    tst = ns.NonnegMean(test=test_fn(ns, cfg["test"]), estim=estim_fn(ns, cfg.get("estim")),
                        bet=bet_fn(ns, cfg.get("bet")), u=cfg.get("u_init", cfg["u"]), N=n, t=cfg["t"],
                        random_order=cfg["random_order"], **cfg["kwargs"])
    if "u_init" in cfg:
        tst.u = cfg["u"]
    return tst


def call_test(tst, x):
    """(p, hist) or raises; warnings silenced (the library warns about impossible alternatives)"""
    with warnings.catch_warnings():
        warnings.simplefilter("ignore")
        with np.errstate(all="ignore"):
            p, h = tst.test(np.array(x, dtype=float))
    return float(p), np.asarray(h, dtype=float)


# --------------------------------------------------------------------------- null populations
def gen_null_population(rng, N, u, t, bits=4, exact_mean=None, shape=None):
    """N values on the grid 2**-bits * Z within [0, u], with sum <= N t (== N t when exact_mean and
    feasible).  Returns a list of floats (exactly representable)."""
    q = 2 ** bits
    umax = int(math.floor(u * q + 1e-12))
    target = int(math.floor(N * t * q + 1e-12))  # N t q is an integer when t is dyadic with <= bits bits
    shape = shape or rng.pick(["binary", "ternary", "few", "any", "comparison"])
    if shape == "binary":
        support = [0, umax]
    elif shape == "ternary":
        support = [0, umax // 2, umax]
    elif shape == "comparison":
        support = [0, umax // 4, umax // 2, (3 * umax) // 4, umax]
    elif shape == "few":
        support = sorted(set(rng.randint(0, umax) for _ in range(3)))
    else:
        support = list(range(0, umax + 1))
    # draw, then repair the sum
    if shape == "comparison":
        w = [1, 1, 8, 1, 1]
        vals = [rng.choices(support, weights=w)[0] for _ in range(N)]
    else:
        vals = [rng.pick(support) for _ in range(N)]
    tot = sum(vals)
    guard = 0
    while tot > target and guard < 10000:
        guard += 1
        i = rng.randrange(N)
        lower = [s for s in support if s < vals[i]]
        if lower:
            new = rng.pick(lower)
            tot -= vals[i] - new
            vals[i] = new
    if tot > target:
        vals = [0] * N
        tot = 0
    if exact_mean is None:
        exact_mean = rng.chance(0.5)
    if exact_mean and tot < target:
        # raise values (off the support if necessary) until the sum is exactly N t
        order = list(range(N))
        rng.shuffle(order)
        for i in order:
            if tot >= target:
                break
            add = min(umax - vals[i], target - tot)
            vals[i] += add
            tot += add
    return [v / q for v in vals], (tot == target)


def distinct_orderings(values, cap):
    """all distinct orderings of a multiset, or None if there are more than cap"""
    cnt = {}
    for v in values:
        cnt[v] = cnt.get(v, 0) + 1
    total = math.factorial(len(values))
    for c in cnt.values():
        total //= math.factorial(c)
    if total > cap:
        return None, total
    keys = sorted(cnt)
    out = []

    def rec(prefix, remaining):
        if len(prefix) == len(values):
            out.append(tuple(prefix))
            return
        for k in keys:
            if remaining[k]:
                remaining[k] -= 1
                prefix.append(k)
                rec(prefix, remaining)
                prefix.pop()
                remaining[k] += 1

    rec([], dict(cnt))
    return out, total


def n_orderings(values):
    cnt = {}
    for v in values:
        cnt[v] = cnt.get(v, 0) + 1
    total = math.factorial(len(values))
    for c in cnt.values():
        total //= math.factorial(c)
    return total


def smallest_seen(p, h):
    """the smallest number the auditor sees in one call: overall value and every history entry; NaN
    is not '<= alpha' for any alpha and is skipped (returned count)"""
    vals = [p] + [float(v) for v in h]
    nn = [v for v in vals if not math.isnan(v)]
    return (min(nn) if nn else 1.0), len(vals) - len(nn)


def superuniform_violations(dist, total_weight):
    """dist: dict value -> weight.  Returns list of (v, P(M<=v)) with P(M<=v) > v, v < 1"""
    bad = []
    acc = 0.0
    for v in sorted(dist):
        acc += dist[v]
        if v >= 1:
            break
        pr = acc / total_weight
        if pr > max(v, 0.0) * (1 + 1e-9) + 1e-12:
            bad.append((v, pr))
    return bad
