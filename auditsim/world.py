"""AuditWorld: ground-truth election, voting system (CVR production, pooling), and the builders that
turn an explicit, JSON-able world description into *real* SHANGRLA objects.

Everything in a world description is plain data so that it can be written to a replay file,
shrunk, and re-executed without the PRNG."""
import contextlib
import copy
import io
import warnings

import numpy as np

from . import repo as R

POLLING, COMPARISON, ONEAUDIT = "POLLING", "CARD_COMPARISON", "ONEAUDIT"
PLURALITY, APPROVAL, SUPERMAJORITY, IRV = "PLURALITY", "APPROVAL", "SUPERMAJORITY", "IRV"

TRUTHY = [1, True, "x", 5]
FALSY = [0, False, ""]


def test_fn(ns, name):
    return {
        "ALPHA_MART": ns.NonnegMean.alpha_mart,
        "BETTING_MART": ns.NonnegMean.betting_mart,
        "KAPLAN_KOLMOGOROV": ns.NonnegMean.kaplan_kolmogorov,
        "KAPLAN_MARKOV": ns.NonnegMean.kaplan_markov,
        "KAPLAN_WALD": ns.NonnegMean.kaplan_wald,
        "WALD_SPRT": ns.NonnegMean.wald_sprt,
    }[name]


def estim_fn(ns, name):
    if name is None:
        return None
    return {
        "fixed_alternative_mean": ns.NonnegMean.fixed_alternative_mean,
        "shrink_trunc": ns.NonnegMean.shrink_trunc,
        "optimal_comparison": ns.NonnegMean.optimal_comparison,
    }[name]


def bet_fn(ns, name):
    if name is None:
        return None
    return {"fixed_bet": ns.NonnegMean.fixed_bet, "agrapa": ns.NonnegMean.agrapa}[name]


@contextlib.contextmanager
def quiet():
    """the library prints and warns; neither is part of any property"""
    with warnings.catch_warnings():
        warnings.simplefilter("ignore")
        with contextlib.redirect_stdout(io.StringIO()):
            yield


# --------------------------------------------------------------------------- reference assorters
def _b(v):
    return 1 if bool(v) else 0


def ref_assort(asn, votes):
    """reference assorter value for one record.  `asn` is an assertion descriptor
    {kind, contest, winner, loser, cands?, share?, remaining?}; votes is the record's vote dict
    (contest -> {cand: value}).  A record lacking the contest is a non-vote (1/2)."""
    c = asn["contest"]
    v = votes.get(c)
    kind = asn["kind"]
    if kind in ("plurality",):
        if v is None:
            return 0.5
        return (_b(v.get(asn["winner"], False)) - _b(v.get(asn["loser"], False)) + 1) / 2
    if kind == "supermajority":
        if v is None:
            return 0.5
        n = sum(_b(v.get(x, False)) for x in asn["cands"])
        if n == 1:
            return _b(v.get(asn["winner"], False)) / (2 * asn["share"])
        return 0.5
    if kind == "winner_only":
        if v is None:
            return 0.5
        rw, rl = v.get(asn["winner"], False), v.get(asn["loser"], False)
        wf = 1 if rw == 1 else 0
        if (not bool(rw)) and bool(rl):
            lf = 1
        elif bool(rw) and bool(rl) and rl < rw:
            lf = 1
        else:
            lf = 0
        return (wf - lf + 1) / 2
    if kind == "irv_elim":
        if v is None:
            return 0.5
        rem = asn["remaining"]

        def vf(cand):
            if cand not in rem:
                return 0
            rc = v.get(cand, False)
            if not bool(rc):
                return 0
            for o in rem:
                if o == cand:
                    continue
                ro = v.get(o, False)
                if bool(ro) and ro <= rc:
                    return 0
            return 1

        return (vf(asn["winner"]) - vf(asn["loser"]) + 1) / 2
    raise ValueError(kind)


def assertion_descriptors(cid, cs):
    """assertion key -> descriptor, keys exactly as the library names them"""
    out = {}
    if cs["choice_function"] in (PLURALITY, APPROVAL):
        for w in cs["winner"]:
            for l in cs["candidates"]:
                if l not in cs["winner"]:
                    out[f"{w} v {l}"] = {"kind": "plurality", "contest": cid, "winner": w, "loser": l}
    elif cs["choice_function"] == SUPERMAJORITY:
        w = cs["winner"][0]
        out[f"{w} v ALL_OTHERS"] = {"kind": "supermajority", "contest": cid, "winner": w, "loser": "ALL_OTHERS",
                                    "cands": list(cs["candidates"]), "share": cs["share_to_win"]}
    elif cs["choice_function"] == IRV:
        for a in cs["assertion_json"]:
            if a["assertion_type"] == "WINNER_ONLY":
                out[f"{a['winner']} v {a['loser']}"] = {"kind": "winner_only", "contest": cid,
                                                       "winner": a["winner"], "loser": a["loser"]}
            else:
                el = list(a["already_eliminated"])
                out[f"{a['winner']} v {a['loser']} elim " + " ".join(el)] = {
                    "kind": "irv_elim", "contest": cid, "winner": a["winner"], "loser": a["loser"],
                    "remaining": [c for c in cs["candidates"] if c not in el]}
    return out


def assorter_upper(asn):
    return 1 / (2 * asn["share"]) if asn["kind"] == "supermajority" else 1.0


# --------------------------------------------------------------------------- generation of votes
def gen_mark(rng, on):
    return rng.pick(TRUTHY) if on else rng.pick(FALSY)


def gen_votes(rng, cs, strength=0.6, explicit_zero=0.3):
    """one card's marks in one contest; candidates early in the list are favoured"""
    cands = cs["candidates"]
    k = cs["n_winners"]
    cf = cs["choice_function"]
    v = {}
    if cf == IRV:
        r = rng.random()
        order = list(cands)
        # biased shuffle: mostly keep the list order
        for i in range(len(order) - 1):
            if rng.random() > strength:
                j = rng.randrange(i, len(order))
                order[i], order[j] = order[j], order[i]
        n = rng.randint(0, len(order)) if r < 0.5 else len(order)
        for rank, c in enumerate(order[:n], start=1):
            v[c] = rank
        if rng.random() < 0.05 and n >= 2:  # a skipped rank
            c = order[n - 1]
            v[c] = n + 1
        return v
    if cf == APPROVAL:
        marked = [c for i, c in enumerate(cands) if rng.random() < (strength if i < k else 0.35)]
    else:
        r = rng.random()
        if r < 0.08:
            marked = []  # undervote
        elif r < 0.14:
            marked = rng.sample(cands, min(len(cands), k + 1))  # overvote
        else:
            first = rng.random() < strength
            pool = cands[:k] if first else cands
            marked = rng.sample(pool, min(len(pool), rng.randint(1, k)))
    for c in cands:
        if c in marked:
            v[c] = gen_mark(rng, True)
        elif rng.random() < explicit_zero:
            v[c] = gen_mark(rng, False)
    return v


def tallies(cs, cid, records):
    t = {c: 0 for c in cs["candidates"]}
    for votes in records:
        v = votes.get(cid)
        if v is None:
            continue
        for c in cs["candidates"]:
            t[c] += _b(v.get(c, False))
    return t


def means(descs, records):
    """reference assorter means over records listing the contest (vote dicts)"""
    out = {}
    for k, d in descs.items():
        vals = [ref_assort(d, r) for r in records if d["contest"] in r]
        out[k] = sum(vals) / len(vals) if vals else float("nan")
    return out


def fix_winners(rng, cid, cs, records):
    """choose reported winners so that every assertion is true of the CVRs (positive margin);
    may edit cs (winner, share, assertion_json) and, as a last resort, the records"""
    cf = cs["choice_function"]
    recs = [r for r in records if cid in r]
    if cf in (PLURALITY, APPROVAL) and cs["n_winners"] >= len(cs["candidates"]):
        cs["winner"] = list(cs["candidates"])
        return
    if cf in (PLURALITY, APPROVAL):
        k = cs["n_winners"]
        for _ in range(50):
            t = tallies(cs, cid, recs)
            order = sorted(cs["candidates"], key=lambda c: (-t[c], c))
            if t[order[k - 1]] > t[order[k]]:
                cs["winner"] = order[:k]
                return
            # break the tie: give the k-th candidate one more vote on a card that lacks it
            w = order[k - 1]
            for r in recs:
                if not _b(r[cid].get(w, False)):
                    r[cid][w] = 1
                    break
            else:
                if not recs:
                    break
                recs[0][cid] = {w: 1}
        cs["winner"] = order[:k]
    elif cf == SUPERMAJORITY:
        cands = cs["candidates"]
        for _ in range(50):
            valid = [r for r in recs if sum(_b(r[cid].get(c, False)) for c in cands) == 1]
            t = {c: sum(_b(r[cid].get(c, False)) for r in valid) for c in cands}
            w = max(cands, key=lambda c: (t[c], c))
            if valid and t[w] > 0:
                frac = t[w] / len(valid)
                # a share strictly below the winner's fraction of the valid votes
                lo = 0.05
                hi = min(0.95, frac - 1e-3)
                if hi > lo:
                    cs["winner"] = [w]
                    cs["share_to_win"] = round(lo + (hi - lo) * rng.random(), 4)
                    return
            if recs:
                recs[rng.randrange(len(recs))][cid] = {cands[0]: 1}
            else:
                break
        cs["winner"] = [cands[0]]
        cs["share_to_win"] = 0.05
    elif cf == IRV:
        cands = cs["candidates"]
        cs["winner"] = [cands[0]]
        for _ in range(6):
            pool = []
            for _j in range(12):
                w, l = rng.sample(cands, 2)
                if rng.random() < 0.4:
                    pool.append({"winner": w, "loser": l, "assertion_type": "WINNER_ONLY",
                                 "already_eliminated": []})
                else:
                    others = [c for c in cands if c not in (w, l)]
                    pool.append({"winner": w, "loser": l, "assertion_type": "IRV_ELIMINATION",
                                 "already_eliminated": sorted(rng.subset(others, 0.5))})
            cs["assertion_json"] = pool
            d = assertion_descriptors(cid, cs)
            m = means(d, recs)
            keep = []
            seen = set()
            for a in pool:
                key = (f"{a['winner']} v {a['loser']}" if a["assertion_type"] == "WINNER_ONLY" else
                       f"{a['winner']} v {a['loser']} elim " + " ".join(a["already_eliminated"]))
                if key in seen:
                    continue
                if m[key] == m[key] and m[key] > 0.5:
                    keep.append(a)
                    seen.add(key)
            if keep:
                cs["assertion_json"] = keep[: rng.randint(1, min(6, len(keep)))]
                return
        # fall back: make everybody rank cands[0] first, cands[1] second
        for r in recs:
            r[cid] = {cands[0]: 1, cands[1]: 2}
        cs["assertion_json"] = [{"winner": cands[0], "loser": cands[1], "assertion_type": "WINNER_ONLY",
                                 "already_eliminated": []}]


TEST_MENU = [
    # (test, estim, bet, kwargs-generator)
    ("ALPHA_MART", "shrink_trunc", None),
    ("ALPHA_MART", "fixed_alternative_mean", None),
    ("ALPHA_MART", "optimal_comparison", None),
    ("BETTING_MART", None, "fixed_bet"),
    ("BETTING_MART", None, "agrapa"),
    ("KAPLAN_KOLMOGOROV", None, None),
    ("WALD_SPRT", None, None),
]


def gen_test(rng, audit_type):
    """a (test, estim, bet, test_kwargs) combination usable in an audit of this type (finite N)"""
    menu = list(TEST_MENU)
    if audit_type == POLLING:
        menu = [m for m in menu if m[1] != "optimal_comparison"]
    test, estim, bet = rng.pick(menu)
    kw = {}
    if test == "WALD_SPRT" or estim == "fixed_alternative_mean":
        kw = {"eta": rng.pick([0.51, 0.55, 0.7, 0.9])}
    if estim == "shrink_trunc":
        kw = {"d": rng.pick([1, 10, 100]), "f": rng.pick([0, 0, 0.5]), "c": rng.pick([0.25, 0.5]),
              "minsd": 1e-6}
    elif estim == "optimal_comparison":
        kw = {"rate_error_2": rng.pick([1e-5, 1e-4, 1e-3])}
    if bet == "fixed_bet":
        kw = {"lam": rng.pick([0.1, 0.5, 0.9])}
    elif bet == "agrapa":
        kw = {"lam": rng.pick([0.1, 0.5]), "c_grapa_0": rng.pick([0.5, 0.9]), "c_grapa_max": 0.95,
              "c_grapa_grow": rng.pick([0, 1])}
    return {"test": test, "estim": estim, "bet": bet, "test_kwargs": kw}


def gen_contest(rng, cid, audit_type, kinds=None, shared_names=False):
    kinds = kinds or [(PLURALITY, 5), (APPROVAL, 1), (SUPERMAJORITY, 2), (IRV, 2)]
    cf = rng.wpick(kinds)
    ncand = rng.randint(2, 5)
    if cf == IRV:
        ncand = rng.randint(3, 5)
    # candidate names are only unique within a contest ('yes'/'no' measures): assertion labels may collide across contests
    cands = [f"c{j}" for j in range(ncand)] if shared_names else [f"{cid}c{j}" for j in range(ncand)]
    k = 1
    if cf in (PLURALITY, APPROVAL) and ncand > 2 and rng.random() < 0.3:
        k = rng.randint(1, ncand - 1)
    if cf == PLURALITY and rng.random() < 0.04:
        k = ncand  # uncontested: as many seats as candidates, nothing to assert
    cs = {
        "choice_function": cf, "n_winners": k, "candidates": cands, "winner": cands[:k],
        "share_to_win": None, "risk_limit": rng.pick([0.01, 0.05, 0.1, 0.2, 0.5]),
        "cards": None, "audit_type": audit_type, "g": rng.pick([0.1, 0.1, 0.05, 0.2, 0.01]), "assertion_json": None,
        # super-majority: build the assertion by calling the constructor directly without the share argument, as the
        # library's own test does (the share is an attribute of the contest)
        "sm_direct": bool(rng.random() < 0.5),
    }
    cs.update(gen_test(rng, audit_type))
    return cs


# --------------------------------------------------------------------------- builders (real objects)
def _flag(v, how):
    """a true/false value as the caller's tooling produced it: a Python bool, a numpy bool (a column of an array), 0/1"""
    if how == "numpy":
        return np.bool_(bool(v))
    if how == "int":
        return int(bool(v))
    return bool(v)


def mk_cvr(ns, spec):
    how = spec.get("flag_type", "bool")
    return ns.CVR(id=spec["id"], votes=copy.deepcopy(spec.get("votes", {})), phantom=_flag(spec.get("phantom", False), how),
                  tally_pool=spec.get("tally_pool"), pool=_flag(spec.get("pool", False), "numpy" if how == "numpy" else "bool"),
                  sample_num=spec.get("sample_num"), card_in_batch=spec.get("card_in_batch"))


def mk_cvrs(ns, specs):
    return [mk_cvr(ns, s) for s in specs]


def mk_audit(ns, world):
    return ns.Audit.from_dict({
        "seed": world.get("seed", 1234),
        "sim_seed": world.get("sim_seed", 314159265),
        "quantile": world.get("quantile", 0.8),
        "error_rate_1": world.get("error_rate_1", 0.001),
        "error_rate_2": world.get("error_rate_2", 0.0),
        "reps": world.get("reps"),
        "max_cards": world.get("max_cards"),
        "strata": {"stratum_1": {"max_cards": world.get("max_cards"),
                                 "use_style": _flag(world["use_style"], world.get("style_flag_type", "bool")),
                                 "replacement": False}},
    })


def mk_contests(ns, world, with_assertions=True):
    d = {}
    order = [c for c in world.get("contest_order", []) if c in world["contests"]]
    order += [c for c in world["contests"] if c not in order]
    for cid in order:  # the order in which the user listed the contests is part of the case
        cs = world["contests"][cid]
        e = {
            "name": f"contest {cid}",
            "risk_limit": cs["risk_limit"],
            "cards": cs.get("cards"),
            "choice_function": cs["choice_function"],
            "n_winners": cs["n_winners"],
            "share_to_win": cs.get("share_to_win"),
            "candidates": list(cs["candidates"]),
            "winner": list(cs["winner"]),
            "assertion_file": "synthetic-assertions.json" if cs["choice_function"] == IRV else None,
            "audit_type": cs["audit_type"],
            "test": test_fn(ns, cs["test"]),
            "estim": estim_fn(ns, cs.get("estim")),
            "bet": bet_fn(ns, cs.get("bet")),
            "test_kwargs": dict(cs.get("test_kwargs") or {}),
            "g": cs.get("g", 0.1),
            "use_style": bool(world["use_style"]),
        }
        if world.get("omit_empty_kwargs") and not e["test_kwargs"]:
            del e["test_kwargs"]  # as users do: the contest then carries the class-level default dict
        d[cid] = e
    contests = ns.Contest.from_dict_of_dicts(d)
    for cid, cs in world["contests"].items():
        if cs["choice_function"] == IRV:
            contests[cid].assertion_json = copy.deepcopy(cs["assertion_json"])
    if with_assertions:
        make_assertions(ns, world, contests)
    return contests


def make_assertions(ns, world, contests):
    """Assertion.make_all_assertions, except that approval contests (which that routine does not
    dispatch) go to make_plurality_assertions directly, as the library documents"""
    with quiet():
        for cid, con in contests.items():
            cs = world["contests"][cid]
            if cs["choice_function"] == APPROVAL:
                losers = [c for c in con.candidates if c not in con.winner]
                con.assertions = ns.Assertion.make_plurality_assertions(
                    contest=con, winner=list(con.winner), loser=losers, test=con.test,
                    test_kwargs=dict(con.test_kwargs), estim=con.estim, bet=con.bet)
            elif cs["choice_function"] == SUPERMAJORITY and cs.get("sm_direct"):
                losers = [c for c in con.candidates if c not in con.winner]
                con.assertions = ns.Assertion.make_supermajority_assertion(
                    contest=con, winner=con.winner[0], loser=losers, test=con.test,
                    test_kwargs=dict(con.test_kwargs), estim=con.estim, bet=con.bet)
            else:
                ns.Assertion.make_all_assertions({cid: con})
            if cs.get("random_order") is False:
                # the documented option for data that are not in random order: the last entry, not the smallest, decides
                for asn in con.assertions.values():
                    asn.test.random_order = False
    return contests


def spec_test(ns, cs, asn, u):
    """the test an assertion of this contest is *configured* to use, built from the contest's specification alone
    (not from the assertion's own test object, whose state is part of what is being checked)"""
    ub = asn.assorter.upper_bound
    kw = dict(cs.get("test_kwargs") or {})
    if cs["choice_function"] in (PLURALITY, APPROVAL):
        kw["g"] = cs.get("g", 0.1)
    t = ns.NonnegMean(test=test_fn(ns, cs["test"]), estim=estim_fn(ns, cs.get("estim")), bet=bet_fn(ns, cs.get("bet")),
                      u=ub, N=(int(asn.contest.cards) if asn.contest.cards is not None else asn.test.N), t=1 / 2,
                      random_order=True, **kw)
    if cs.get("random_order") is False:
        t.random_order = False
    t.u = u
    return t



def clone_test(ns, t, u=None):
    """a fresh NonnegMean with the same class-level functions and the same attributes as `t` (bound methods re-bound)"""
    f = ns.NonnegMean.__new__(ns.NonnegMean)
    f.__dict__.update({k: v for k, v in t.__dict__.items() if not k.startswith("_c06")})
    f.test = (t.__dict__.get("_c06_inner") or t.test).__func__.__get__(f)
    f.estim = t.estim.__func__.__get__(f)
    f.bet = t.bet.__func__.__get__(f)
    if u is not None:
        f.u = u
    return f
