"""Batch runner: seeded search over simulated runs, violation triage, shrinking, replay files,
evidence.  Exit codes: 0 held on everything explored / 1 violation / 2 harness problem."""
import argparse
import concurrent.futures as cf
import faulthandler
import importlib
import json
import multiprocessing as mp
import os
import subprocess
import sys
import time
import traceback
import fnmatch
from collections import Counter

from . import log as L
from . import repo as R
from .rng import Rng, derive

VERIF = os.path.dirname(os.path.dirname(os.path.abspath(__file__)))
DEFAULT_SEED = 20261003


# --------------------------------------------------------------------------- one run
def run_one(mod, seed, tier, i):
    rng = Rng(derive(seed, mod.PROP, i))
    case = mod.generate(rng, tier)
    out = mod.execute(case)
    return case, out


def _work(args):
    """worker: runs indices [lo, hi) of property `prop`; returns compact summaries"""
    prop, seed, tier, lo, hi, limit_s = args
    faulthandler.dump_traceback_later(limit_s, exit=True)
    try:
        mod = importlib.import_module(f"checks.{prop}")
        res = []
        for i in range(lo, hi):
            try:
                _case, out = run_one(mod, seed, tier, i)
                s = out.summary()
                s["i"] = i
                res.append(s)
            except Exception:
                res.append({"i": i, "harness_error": traceback.format_exc()})
        return res
    finally:
        faulthandler.cancel_dump_traceback_later()


# --------------------------------------------------------------------------- known findings
def load_findings():
    p = os.path.join(VERIF, "known_findings.json")
    if not os.path.exists(p):
        return []
    with open(p) as f:
        return json.load(f)["findings"]


def match_known(findings, prop, sig):
    for f in findings:
        if f.get("status") != "known":
            continue  # a 'fixed' entry suppresses nothing
        if f["property"] == prop and fnmatch.fnmatchcase(sig, f["signature"]):
            return f
    return None


# --------------------------------------------------------------------------- shrinking
def has_sig(out, sig):
    return any(v["sig"] == sig for v in out.violations)


def shrink(mod, case, sig, max_evals=400, max_s=30.0):
    """greedy delta debugging with the module's domain reducers; a candidate is accepted only if the
    same violation signature persists"""
    t0 = time.time()
    evals = 0
    improved = True
    while improved and evals < max_evals and time.time() - t0 < max_s:
        improved = False
        for cand in mod.reducers(case):
            if evals >= max_evals or time.time() - t0 >= max_s:
                break
            evals += 1
            try:
                out = mod.execute(cand)
            except Exception:
                continue
            if has_sig(out, sig):
                case = cand
                improved = True
                break
    return case, evals


def write_replay(prop, seed, i, sig, msg, case, shrunk_evals):
    d = os.path.join(VERIF, "replays")
    os.makedirs(d, exist_ok=True)
    body = {"property": prop, "signature": sig, "message": msg, "verif_seed": seed, "run": i,
            "shrink_evaluations": shrunk_evals, "case": L.plain(case)}
    h = L.digest(body)[:10]
    path = os.path.join(d, f"{prop}-{seed}-{i}-{h}.json")
    with open(path, "w") as f:
        json.dump(body, f, indent=1, sort_keys=True)
    return path


def replay_file(mod, path):
    with open(path) as f:
        body = json.load(f)
    out = mod.execute(body["case"])
    return body, out


def fresh_replay(prop, path):
    """re-execute the replay file in a fresh interpreter; True iff the signature reproduces"""
    env = dict(os.environ)
    env["PYTHONHASHSEED"] = "0"
    r = subprocess.run([sys.executable, os.path.join(VERIF, "check.py"), prop, "--replay", path],
                       capture_output=True, text=True, env=env, timeout=600)
    return r.returncode == 1 and "REPRODUCED" in r.stdout, r.stdout + r.stderr


# --------------------------------------------------------------------------- batch
def batch(mod, seed, tier, workers, runs=None, budget_s=None, chunk=None, quiet=False):
    cfg = dict(mod.TIERS[tier])
    if runs is not None:
        cfg["runs"] = runs
        cfg.pop("budget_s", None)
    if budget_s is not None:
        cfg["budget_s"] = budget_s
        cfg.pop("runs", None)
    chunk = chunk or cfg.get("chunk", 200)
    limit_s = cfg.get("chunk_limit_s", 900)
    t0 = time.time()
    results = []
    ctx = mp.get_context("fork")
    nxt = 0
    total = cfg.get("runs")
    deadline = t0 + cfg["budget_s"] if "budget_s" in cfg else None
    max_runs = cfg.get("max_runs", 10 ** 9)

    def more():
        nonlocal nxt
        if total is not None:
            if nxt >= total:
                return None
            lo, hi = nxt, min(total, nxt + chunk)
        else:
            if time.time() >= deadline or nxt >= max_runs:
                return None
            lo, hi = nxt, nxt + chunk
        nxt = hi
        return (mod.PROP, seed, tier, lo, hi, limit_s)

    with cf.ProcessPoolExecutor(max_workers=workers, mp_context=ctx) as ex:
        pending = set()
        for _ in range(workers * 2):
            a = more()
            if a is None:
                break
            pending.add(ex.submit(_work, a))
        while pending:
            done, pending = cf.wait(pending, return_when=cf.FIRST_COMPLETED, timeout=limit_s + 60)
            if not done:
                raise R.HarnessError("worker batch stalled")
            for fut in done:
                results.extend(fut.result())  # BrokenProcessPool propagates -> harness error
                a = more()
                if a is not None:
                    pending.add(ex.submit(_work, a))
    results.sort(key=lambda s: s["i"])
    return results, time.time() - t0


def aggregate(results):
    agg = {"faults": Counter(), "probes": Counter(), "units": Counter(), "exceptions": Counter()}
    digests = set()
    coarse = set()
    nontriv = 0
    harness = []
    viol = {}  # sig -> {"first": i, "msg":..., "runs": n}
    for s in results:
        if "harness_error" in s:
            harness.append(s)
            continue
        for k in ("faults", "probes", "units", "exceptions"):
            agg[k].update(s[k])
        coarse.add(s["coarse"])
        if s["nontrivial"]:
            nontriv += 1
            digests.add(s["digest"][:16])
        for v in s["violations"]:
            e = viol.setdefault(v["sig"], {"first": s["i"], "msg": v["msg"], "clause": v["clause"], "runs": 0, "some": []})
            e["runs"] += 1
            if len(e["some"]) < 48:
                e["some"].append(s["i"])
    agg["distinct_nontrivial"] = len(digests)
    agg["nontrivial_runs"] = nontriv
    agg["distinct_interleavings"] = len(coarse)
    # F6 (records handed back in another order) fires in every round of every audit; a run counts as
    # fault-free when nothing else fired
    agg["fault_free_runs"] = sum(1 for s in results if "harness_error" not in s
                                 and not [k for k in s["faults"] if not k.startswith("F6")])
    return agg, viol, harness


def determinism_selftest(mod, seed, tier, results, n=8):
    """fresh interpreter, other hash seed: digests of the first n runs must be identical"""
    env = dict(os.environ)
    env["PYTHONHASHSEED"] = "1"
    env["VERIF_SEED"] = str(seed)
    r = subprocess.run([sys.executable, os.path.join(VERIF, "check.py"), mod.PROP, "--digests", str(n),
                        "--tier", tier], capture_output=True, text=True, env=env, timeout=900)
    if r.returncode != 0:
        raise R.HarnessError(f"determinism self-test subprocess failed: {r.stdout}\n{r.stderr}")
    line = [ln for ln in r.stdout.splitlines() if ln.startswith("DIGESTS ")]
    if not line:
        raise R.HarnessError(f"determinism self-test gave no digests: {r.stdout}\n{r.stderr}")
    other = json.loads(line[-1][len("DIGESTS "):])
    mine = {s["i"]: s.get("digest") for s in results[: n * 2]}
    bad = [i for i in range(n) if i in mine and mine[i] != other[i]]
    return {"runs_compared": n, "other_hashseed": 1, "fresh_interpreter": True, "mismatches": bad}


def write_evidence(mod, tier, seed, results, agg, wall, violations, known, selftest, extra=None):
    n = sum(1 for s in results if "harness_error" not in s)
    samples = []
    cand = []
    for i in range(min(12, len(results))):
        rng = Rng(derive(seed, mod.PROP, i))
        c = mod.generate(rng, tier)
        cand.append((len(json.dumps(L.plain(c))), i, c))
    cand.sort(key=lambda t: t[0])
    for _sz, i, c in cand[:3]:
        samples.append({"run": i, "case": L.plain(c)})
    head, diffh = R.revision()
    cov = {
        "evaluations": n,
        "distinct_nontrivial": agg["distinct_nontrivial"],
        "rule": mod.RULE,
        "samples": samples,
        "exhaustive": False,
        "run_index_range": [0, len(results)],
        "nontrivial_runs": agg["nontrivial_runs"],
        "fault_free_runs": agg["fault_free_runs"],
        "distinct_interleavings": agg["distinct_interleavings"],
        "interleaving_measure": "distinct digests of the coarse log (operation kinds, fault kinds, "
                                "configuration class, outcome classes; no numbers)",
        "runs_per_hour": int(n / wall * 3600) if wall > 0 else 0,
        "seeds_per_hour": int(n / wall * 3600) if wall > 0 else 0,
        "simulated_time": dict(agg["units"]),
        "simulated_time_note": "the library has no clock; simulated time is counted in its own units",
        "faults_fired": dict(agg["faults"]),
        "probes": dict(agg["probes"]),
        "probes_stuck_at_zero": [p for p in getattr(mod, "PROBES", []) if not agg["probes"].get(p)],
        "real_code_exceptions": dict(agg["exceptions"]),
        "components": mod.COMPONENTS,
        "repo_head": head,
        "repo_worktree_diff_sha": diffh,
        "known_findings_matched": known,
        "violation_signatures": violations,
        "determinism_selftest": selftest,
    }
    if extra:
        cov.update(extra)
    ev = {
        "property_id": mod.PROP,
        "tier": tier,
        "seed": int(seed),
        "level": "exploration",
        "coverage": cov,
        "assumptions": mod.ASSUMPTIONS,
        "wall_s": round(wall, 2),
        "violations": len(violations),
    }
    os.makedirs(os.path.join(VERIF, "evidence"), exist_ok=True)
    path = os.path.join(VERIF, "evidence", f"{mod.PROP}.json")
    tmp = path + ".tmp"
    with open(tmp, "w") as f:
        json.dump(ev, f, indent=1, sort_keys=True)
    os.replace(tmp, path)
    return path


# --------------------------------------------------------------------------- main
def main(argv=None):
    ap = argparse.ArgumentParser()
    ap.add_argument("prop")
    ap.add_argument("--tier", default=os.environ.get("VERIF_TIER", "quick"), choices=["quick", "thorough"])
    ap.add_argument("--replay")
    ap.add_argument("--runs", type=int)
    ap.add_argument("--budget", type=float, help="seconds (time-budgeted batch)")
    ap.add_argument("--workers", type=int, default=int(os.environ.get("VERIF_WORKERS", min(16, os.cpu_count() or 1))))
    ap.add_argument("--digests", type=int, help="self-test: print digests of the first N runs and exit")
    ap.add_argument("--range", type=int, nargs=2, help="self-test: print digests of runs lo..hi")
    ap.add_argument("--case", type=int, help="print the explicit case of run i and what it produced")
    ap.add_argument("--no-evidence", action="store_true")
    ap.add_argument("--no-selftest", action="store_true")
    a = ap.parse_args(argv)
    seed = int(os.environ.get("VERIF_SEED", DEFAULT_SEED))
    try:
        R.load()
        mod = importlib.import_module(f"checks.{a.prop}")
    except Exception:
        traceback.print_exc()
        print(f"HARNESS-ERROR property={a.prop} cannot load")
        return 2

    if a.replay:
        body, out = replay_file(mod, a.replay)
        sig = body["signature"]
        if has_sig(out, sig):
            msg = [v["msg"] for v in out.violations if v["sig"] == sig][0]
            print(f"REPRODUCED signature={sig} :: {msg}")
            print(f"VIOLATION property={mod.PROP} replay={os.path.abspath(a.replay)}")
            return 1
        print(f"NOT-REPRODUCED signature={sig}; run produced {[v['sig'] for v in out.violations]}")
        return 0

    if a.digests is not None or a.range is not None:
        lo, hi = (0, a.digests) if a.digests is not None else a.range
        ds = []
        for i in range(lo, hi):
            _c, out = run_one(mod, seed, a.tier, i)
            ds.append(out.digest())
        print("DIGESTS " + json.dumps(ds))
        return 0

    if a.case is not None:
        case, out = run_one(mod, seed, a.tier, a.case)
        print(json.dumps({"case": L.plain(case), "summary": out.summary()}, indent=1, sort_keys=True, default=str))
        return 0

    print(f"VERIF_SEED={seed} property={mod.PROP} tier={a.tier} workers={a.workers} repo={R.REPO}")
    try:
        results, wall = batch(mod, seed, a.tier, a.workers, runs=a.runs, budget_s=a.budget)
        agg, viol, harness = aggregate(results)
        if harness:
            print(harness[0]["harness_error"])
            print(f"HARNESS-ERROR property={mod.PROP} runs={[h['i'] for h in harness][:10]}")
            return 2
        selftest = None
        if not a.no_selftest:
            selftest = determinism_selftest(mod, seed, a.tier, results)
            if selftest["mismatches"]:
                print(f"HARNESS-ERROR property={mod.PROP} nondeterministic runs {selftest['mismatches']}")
                return 2
        findings = load_findings()
        known_lines = []
        unknown = []
        for sig, e in sorted(viol.items(), key=lambda kv: kv[1]["first"]):
            k = match_known(findings, mod.PROP, sig)
            if k is not None:
                known_lines.append({"signature": sig, "runs": e["runs"], "finding": k["id"], "first_run": e["first"]})
            else:
                unknown.append((sig, e))
        for fid in sorted({kl["finding"] for kl in known_lines}):
            k = next(f for f in findings if f["id"] == fid)
            mine = [kl for kl in known_lines if kl["finding"] == fid]
            print(f"KNOWN-FINDING: property={mod.PROP} {k['what']} [{fid}; {sum(m['runs'] for m in mine)} runs, "
                  f"{len(mine)} signatures, first run {min(m['first_run'] for m in mine)}]")
        vio_out = []
        unreproduced = []
        rc = 0
        for n_done, (sig, e) in enumerate(unknown):
            # a violation counts only once its replay file reproduces it in a fresh interpreter.  State that the
            # code under test keeps in the process (a class-level cache, a module global) can make a run fail only
            # because of the runs before it; such a run does not reproduce alone, so further candidates are tried.
            ok, path, msg, txt = False, None, e["msg"], ""
            cands = (e.get("some") or [e["first"]])
            for cand_i in cands[:6]:
                case0 = mod.generate(Rng(derive(seed, mod.PROP, cand_i)), a.tier)
                attempts = []
                if n_done < 6:
                    attempts.append(shrink(mod, case0, sig))
                attempts.append((case0, 0))
                for case, evals in attempts:
                    try:
                        out = mod.execute(case)
                    except Exception:
                        continue
                    msg = next((v["msg"] for v in out.violations if v["sig"] == sig), e["msg"])
                    path = write_replay(mod.PROP, seed, cand_i, sig, msg, case, evals)
                    ok, txt = fresh_replay(mod.PROP, path)
                    if ok:
                        e["first"] = cand_i
                        break
                if ok:
                    break
            if not ok and len(cands) > 6:
                # wider net: the remaining candidate runs, unshrunk, each in its own fresh interpreter (in parallel)
                import concurrent.futures as cf

                def attempt(cand_i):
                    case = mod.generate(Rng(derive(seed, mod.PROP, cand_i)), a.tier)
                    pth = write_replay(mod.PROP, seed, cand_i, sig, e["msg"], case, 0)
                    good, _t = fresh_replay(mod.PROP, pth)
                    if not good:
                        try:
                            os.remove(pth)
                        except OSError:
                            pass
                    return cand_i, pth, good

                with cf.ThreadPoolExecutor(max_workers=max(1, min(16, a.workers))) as ex:
                    for cand_i, pth, good in ex.map(attempt, cands[6:]):
                        if good and not ok:
                            ok, path, e["first"] = True, pth, cand_i
            if not ok:
                unreproduced.append(sig)
                print(f"unreproduced: {sig} in {e['runs']} runs (tried {len(cands)} of them): no replay reproduces it in a fresh "
                      f"interpreter - the failure depends on state the code under test carries between runs of one process")
                continue
            print(f"violation {sig} in {e['runs']} runs (first run {e['first']}): {msg}")
            print(f"VIOLATION property={mod.PROP} replay={path}")
            vio_out.append({"signature": sig, "runs": e["runs"], "first_run": e["first"], "replay": path})
            rc = 1
        if unreproduced and rc == 0:
            # nothing confirmed, but runs failed in a way that cannot be replayed alone: neither a pass nor a violation
            print(f"HARNESS-ERROR property={mod.PROP} only unreproducible failures: {unreproduced[:5]}")
            return 2
        if not a.no_evidence:
            write_evidence(mod, a.tier, seed, results, agg, wall, vio_out, known_lines, selftest)
        n = len(results)
        print(f"{mod.PROP}: {n} runs in {wall:.1f}s ({int(n / max(wall, 1e-9) * 3600)} runs/h), "
              f"{agg['distinct_nontrivial']} distinct non-trivial, {agg['distinct_interleavings']} shapes, "
              f"faults {dict(agg['faults'])}")
        stuck = [p for p in getattr(mod, "PROBES", []) if not agg["probes"].get(p)]
        if stuck:
            print(f"coverage-warning: probes never hit: {stuck}")
        if rc == 0:
            print(f"OK property={mod.PROP} held on everything explored")
        return rc
    except R.HarnessError as e:
        print(f"HARNESS-ERROR property={a.prop} {e}")
        return 2
    except Exception:
        traceback.print_exc()
        print(f"HARNESS-ERROR property={a.prop}")
        return 2
