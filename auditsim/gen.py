"""Seeded generation of whole-audit cases (world + fault plan + round schedule) for AuditWorld.

A case is plain data (see driver.py for how it is executed).  Swarm style: every run draws its own
sizes, mixes, fault rates and schedule."""
import copy

from . import world as W

RATES = [0.0, 0.03, 0.12, 0.4]


def gen_batches(rng, ncards):
    """physical storage: batches (tab, batch) with sizes summing to ncards; may include empty batches"""
    out = []
    left = ncards
    tab = rng.randint(1, 9)
    b = 1
    while left > 0:
        n = min(left, rng.randint(1, rng.pick([3, 8, 20])))
        out.append({"tab": str(tab), "batch": str(b), "n": n})
        left -= n
        b += 1
        if rng.chance(0.25):
            tab += 1
            b = 1
        if rng.chance(0.08):
            out.append({"tab": str(tab), "batch": str(b), "n": 0})
            b += 1
    return out


def mutate_votes(rng, cs, v, how=None):
    """a transcription that differs from the machine's reading"""
    cands = cs["candidates"]
    how = how or rng.pick(["fresh", "drop-winner", "to-loser", "to-winner", "overvote", "blank", "encoding"])
    v = copy.deepcopy(v)
    if cs["choice_function"] == W.IRV:
        if how in ("fresh", "to-loser", "to-winner", "overvote"):
            return W.gen_votes(rng, cs, strength=rng.pick([0.1, 0.9]))
        if how == "blank":
            return {}
        if how == "drop-winner":
            for c in cs["winner"]:
                v.pop(c, None)
            return v
        # re-rank: swap two ranks
        ks = [k for k in v if v[k]]
        if len(ks) >= 2:
            a, b = rng.sample(ks, 2)
            v[a], v[b] = v[b], v[a]
        return v
    if how == "fresh":
        return W.gen_votes(rng, cs, strength=rng.pick([0.1, 0.9]))
    if how == "blank":
        return {}
    if how == "encoding":
        return {k: W.gen_mark(rng, bool(val)) for k, val in v.items()}
    losers = [c for c in cands if c not in cs["winner"]]
    if how == "drop-winner":
        for c in cs["winner"]:
            if c in v:
                v[c] = W.gen_mark(rng, False)
        return v
    if how == "to-loser":
        for c in cs["winner"]:
            v.pop(c, None)
        if losers:
            v[rng.pick(losers)] = W.gen_mark(rng, True)
        return v
    if how == "to-winner":
        for c in losers:
            v.pop(c, None)
        v[rng.pick(cs["winner"])] = W.gen_mark(rng, True)
        return v
    if how == "overvote":
        for c in cands:
            v[c] = W.gen_mark(rng, True)
        return v
    return v


def gen_case(rng, max_cards=40, audit_types=None, allow_style_off=True, max_rounds=5, kinds=None,
             force_fault_free=None, max_contests=4, pooled=True, p_shortfall=0.1, rates=None,
             homogeneous_when_style_off=True):
    audit_type = rng.wpick(audit_types or [(W.COMPARISON, 5), (W.ONEAUDIT, 3), (W.POLLING, 2)])
    ncards = rng.randint(1, rng.pick([5, 15, max_cards]))
    ncon = rng.randint(1, max_contests)
    cids = [f"K{j}" for j in range(ncon)]
    polling = audit_type == W.POLLING
    use_style = False if polling else (rng.chance(0.75) if allow_style_off else True)
    shared_names = rng.chance(0.3)
    contests = {cid: W.gen_contest(rng, cid, audit_type, kinds=kinds, shared_names=shared_names) for cid in cids}
    # ---- fault plan: which kinds are enabled, at what rate
    fault_free = rng.chance(0.15) if force_fault_free is None else force_fault_free
    rate = {k: (0.0 if fault_free else rng.pick(rates or RATES)) for k in
            ("F1", "F2", "F3", "F4", "F5", "F7", "F8", "enc")}
    # ---- ground truth: styles and ballots
    homogeneous = ((not use_style) and homogeneous_when_style_off) or rng.chance(0.2)
    if homogeneous:
        styles = [list(cids)]
    else:
        p_in = rng.pick([0.4, 0.7, 0.9])
        styles = [rng.nonempty_subset(cids, p_in) for _ in range(rng.randint(1, 4))]
        if rng.chance(0.3):
            styles.append([])
        if rng.chance(0.6):
            styles.append(list(cids))
    batches = gen_batches(rng, ncards)
    strength = rng.pick([0.45, 0.6, 0.8, 0.95])
    cards = []
    for b in batches:
        for pos in range(1, b["n"] + 1):
            st = rng.pick(styles)
            ballot = {cid: W.gen_votes(rng, contests[cid], strength=strength) for cid in st}
            cards.append({"id": f"{b['tab']}-{b['batch']}-{pos}", "tab": b["tab"], "batch": b["batch"], "pos": pos,
                          "ballot": ballot})
    # now and then the cards also carry a contest that is not under audit
    unaudited = (not polling) and rng.chance(0.2)
    if unaudited:
        for c in cards:
            if rng.chance(0.5):
                c["ballot"]["U0"] = {"U0a": 1} if rng.chance(0.7) else {"U0b": 1}
    # ---- voting system: CVRs (F2: some cards lose their CVR), pooling of batches (F7)
    pooled_batches = set()
    if audit_type == W.ONEAUDIT and pooled:
        pr = rng.pick([0.3, 0.6, 1.0]) if not fault_free else rng.pick([0.0, 0.5])
        for b in batches:
            if b["n"] and rng.chance(pr):
                pooled_batches.add((b["tab"], b["batch"]))
    cvrs = []
    lost = []
    mixed_pool = bool(pooled_batches) and rng.chance(0.2)  # a pooled batch some of whose cards keep their own CVR
    for c in cards:
        if not polling and rng.chance(rate["F2"]) and len(cards) - len(lost) > 1:
            lost.append(c["id"])
            continue
        cvrs.append({"id": c["id"], "votes": copy.deepcopy(c["ballot"]), "tally_pool": f"{c['tab']}-{c['batch']}",
                     "pool": (c["tab"], c["batch"]) in pooled_batches and not (mixed_pool and rng.chance(0.25)),
                     "card_in_batch": c["pos"]})
    # every contest is listed by at least one record (an audit of a contest nobody voted in has no data at all)
    for cid in cids:
        tgt = cvrs if not polling else cards
        key = "votes" if not polling else "ballot"
        if tgt and not any(cid in c[key] for c in tgt):
            tgt[0][key][cid] = W.gen_votes(rng, contests[cid], strength=strength)
    # a lopsided pooled batch now and then: everybody in it votes for the last-listed candidate except one card for the
    # first - the extreme overstatement values ONEAudit can produce (a card far from its batch mean)
    if audit_type == W.ONEAUDIT and pooled_batches and rng.chance(0.3):
        tb = rng.pick(sorted(pooled_batches))
        label = f"{tb[0]}-{tb[1]}"
        members = [cv for cv in cvrs if cv["tally_pool"] == label]
        for cid in cids:
            cs_ = contests[cid]
            if cs_["choice_function"] not in (W.PLURALITY, W.APPROVAL):
                continue
            holders = [cv for cv in members if cid in cv["votes"]]
            if len(holders) >= 3:
                for j, cv in enumerate(holders):
                    cv["votes"][cid] = {cs_["candidates"][0]: 1} if j == 0 else {cs_["candidates"][-1]: 1}
    # reported winners are what the CVRs (or, for polling, the ballots) say
    recs = [c["votes"] for c in cvrs] if not polling else [c["ballot"] for c in cards]
    for cid in cids:
        W.fix_winners(rng, cid, contests[cid], recs)
    if polling:  # fix_winners may have edited the ballots (tie-breaking)
        pass
    else:
        # keep ballots in step with edited CVRs so that an error-free audit is error-free
        by_id = {c["id"]: c for c in cards}
        for cv in cvrs:
            by_id[cv["id"]]["ballot"] = copy.deepcopy(cv["votes"])
    # ---- card bounds
    n_cvrs = len(cvrs)
    shortfall = len(lost) + (rng.randint(0, 3) if (rng.chance(rate["F8"]) or rng.chance(p_shortfall)) and not fault_free else 0)
    max_cards_bound = len(cards) + (shortfall - len(lost))
    for cid in cids:
        listing = sum(1 for c in recs if cid in c)
        if polling:
            contests[cid]["cards"] = max_cards_bound
        elif use_style:
            r = rng.random()
            if r < 0.2:
                contests[cid]["cards"] = None
            else:
                extra = 0 if fault_free and not lost else rng.randint(0, shortfall) if shortfall else 0
                contests[cid]["cards"] = listing + extra
        else:
            contests[cid]["cards"] = max_cards_bound
    corder = list(cids)
    rng.shuffle(corder)
    flag_type = rng.pick(["bool", "bool", "numpy", "int"])
    for cv in cvrs:
        cv["flag_type"] = flag_type
    world = {"use_style": use_style, "style_flag_type": rng.pick(["bool", "bool", "numpy", "int"]),
             "max_cards": max_cards_bound, "contests": contests, "audit_type": audit_type,
             "contest_order": corder, "omit_empty_kwargs": rng.chance(0.5),
             "seed": rng.getrandbits(64), "sim_seed": rng.getrandbits(31)}
    # ---- manual records (auditors' fault plan), per real card
    mvr = {}
    for c in cards:
        rec = {"phantom": False, "votes": copy.deepcopy(c["ballot"])}
        faults = []
        if rng.chance(rate["F1"]):
            rec = {"phantom": True, "votes": {}}
            faults.append("F1")
        else:
            for cid in list(rec["votes"]):
                if cid not in contests:
                    continue
                if rng.chance(rate["F3"]):
                    rec["votes"][cid] = mutate_votes(rng, contests[cid], rec["votes"][cid])
                    faults.append("F3")
                elif rng.chance(rate["enc"]):
                    rec["votes"][cid] = mutate_votes(rng, contests[cid], rec["votes"][cid], "encoding")
                    faults.append("enc")
            for cid in list(rec["votes"]):
                if cid not in contests:
                    continue
                if rng.chance(rate["F4"]):
                    del rec["votes"][cid]
                    faults.append("F4")
            for cid in cids:
                if cid not in c["ballot"] and rng.chance(rate["F5"]):
                    rec["votes"][cid] = W.gen_votes(rng, contests[cid], strength=0.3)
                    faults.append("F5")
        rec["faults"] = faults
        mvr[c["id"]] = rec
    # ---- manifest (F8: does not account for every card -> phantom batch), draw order, rounds
    ph_pool = bool(audit_type == W.ONEAUDIT and rng.chance(0.35))
    pooled_labels = sorted({c["tally_pool"] for c in cvrs if c["pool"]})
    if ph_pool:
        ph_label = rng.pick(["phantom-pool"] + pooled_labels)
    else:
        # (the label and the flag are independent arguments: phantoms may carry a pooled batch's label without being pooled)
        ph_label = rng.pick([None, None, "phantom-pool"] + (pooled_labels[:1] if pooled_labels else []))
    phantom_label = {"tally_pool": ph_label, "pool": ph_pool}
    tickets = {c["id"]: rng.getrandbits(62) for c in cards}
    phantom_tickets = [rng.getrandbits(62) for _ in range(shortfall + max_cards_bound + 4)]
    nrounds = rng.randint(1, max_rounds)
    rounds = []
    frac = {cid: 0.0 for cid in cids}
    variant_mode = rng.pick(["redraw", "continue", "mixed"])
    for r in range(nrounds):
        for cid in cids:
            if r == 0:
                frac[cid] = rng.pick([0.0, 0.1, 0.3, 0.5, 1.0]) if rng.chance(0.9) else 0.0
            elif rng.chance(0.6):
                frac[cid] = min(1.0, frac[cid] + rng.pick([0.0, 0.05, 0.2, 0.5, 1.0]))
        variant = variant_mode if variant_mode != "mixed" else rng.pick(["redraw", "continue"])
        rounds.append({"frac": dict(frac), "variant": "redraw" if r == 0 else variant,
                       "size_from_estimate": bool(r > 0 and rng.chance(0.25)),
                       "refresh": bool(r > 0 and rng.chance(0.2)),
                       "rebuild": bool(r > 0 and variant != "continue" and rng.chance(0.15)),
                       "continue_order": rng.pick(["same", "same", "sorted", "reversed"]),
                       "renumber": bool(r > 0 and rng.chance(0.2)), "reestimate": rng.pick([False, False, False, "with-sample", "planning"]),

                       "shuffle": rng.getrandbits(32)})
    rehearsal = {"seed": rng.getrandbits(48), "frac": rng.pick([0.2, 0.5, 1.0])} if (not polling and rng.chance(0.2)) else None
    return {
        "rehearsal": rehearsal, "pools_restricted": bool(unaudited and rng.chance(0.6)),
        "diluted_look": rng.chance(0.3), "persist_mvrs": rng.chance(0.5),
        "phantom_prefix": rng.pick(["phantom-1-", "phantom-1-", "missing-1-", "Phantom-1-", "99-0-"]),
        "margin_route": rng.pick(["all", "all", "each"]),
        "world": world, "cvrs": cvrs, "cards": [{k: c[k] for k in ("id", "tab", "batch", "pos")} for c in cards],
        "ballots": {c["id"]: c["ballot"] for c in cards} if polling else None,
        "batches": batches, "lost": lost, "mvr": mvr, "phantom_label": phantom_label,
        "numbering": {"mode": rng.pick(["sha256", "sched", "sched", "rank", "near"]), "seed": rng.getrandbits(64)},
        "mvr_via_from_dict": rng.chance(0.4), "initial_estimate": rng.chance(0.3),
        "early_margins": rng.chance(0.4),
        "tickets": tickets, "phantom_tickets": phantom_tickets,
        "rounds": rounds, "fault_free": fault_free,
    }


# --------------------------------------------------------------------------- shrinking (shared)
def reducers(case, keep_rounds=1):
    """domain reducers over a whole-audit case; every candidate is again a well-formed case"""
    # drop rounds (last first, then middle)
    n = len(case["rounds"])
    for i in reversed(range(n)):
        if n <= keep_rounds:
            break
        if i == 0:
            continue
        c = copy.deepcopy(case)
        del c["rounds"][i]
        yield c
    if case.get("rehearsal"):
        c = copy.deepcopy(case)
        c["rehearsal"] = None
        yield c
    # rounds: no rebuild, redraw instead of continue
    for i, rnd in enumerate(case["rounds"]):
        if rnd.get("rebuild"):
            c = copy.deepcopy(case)
            c["rounds"][i]["rebuild"] = False
            yield c
    # drop contests
    cids = list(case["world"]["contests"])
    for cid in cids:
        if len(cids) <= 1:
            break
        c = copy.deepcopy(case)
        del c["world"]["contests"][cid]
        for cv in c["cvrs"]:
            cv["votes"].pop(cid, None)
        for m in c["mvr"].values():
            m["votes"].pop(cid, None)
        if c.get("ballots"):
            for b in c["ballots"].values():
                b.pop(cid, None)
        for rnd in c["rounds"]:
            rnd["frac"].pop(cid, None)
        yield c
    # drop cards (last first); batches shrink with them
    ids = [c["id"] for c in case["cards"]]
    for cid_ in reversed(ids):
        if len(ids) <= 1:
            break
        c = copy.deepcopy(case)
        card = next(x for x in c["cards"] if x["id"] == cid_)
        b = next(x for x in c["batches"] if x["tab"] == card["tab"] and x["batch"] == card["batch"])
        if card["pos"] != b["n"]:
            continue  # only the last card of a batch can go without renumbering
        b["n"] -= 1
        c["cards"] = [x for x in c["cards"] if x["id"] != cid_]
        c["cvrs"] = [x for x in c["cvrs"] if x["id"] != cid_]
        c["mvr"].pop(cid_, None)
        c["tickets"].pop(cid_, None)
        if c.get("ballots"):
            c["ballots"].pop(cid_, None)
        was_lost = cid_ in c["lost"]
        c["lost"] = [x for x in c["lost"] if x != cid_]
        c["world"]["max_cards"] -= 1
        for k, cs in c["world"]["contests"].items():
            if cs.get("cards") is not None:
                listing = sum(1 for x in c["cvrs"] if k in x["votes"])
                if c["world"]["audit_type"] == "POLLING" or not c["world"]["use_style"]:
                    cs["cards"] = c["world"]["max_cards"]
                else:
                    cs["cards"] = max(listing, cs["cards"] - (0 if was_lost else 1))
        if not c["cvrs"] and c["world"]["audit_type"] != "POLLING":
            continue
        yield c
    # drop faults: make a manual record agree with the CVR / ballot
    truth = {cv["id"]: cv["votes"] for cv in case["cvrs"]}
    if case.get("ballots"):
        truth = case["ballots"]
    for k, m in case["mvr"].items():
        if m.get("faults"):
            c = copy.deepcopy(case)
            c["mvr"][k] = {"phantom": False, "votes": copy.deepcopy(truth.get(k, {})), "faults": []}
            yield c
    # un-pool batches
    pooled = sorted({cv["tally_pool"] for cv in case["cvrs"] if cv.get("pool")})
    for tp in pooled:
        c = copy.deepcopy(case)
        for cv in c["cvrs"]:
            if cv["tally_pool"] == tp:
                cv["pool"] = False
        yield c
    if case["phantom_label"]["pool"] or case["phantom_label"]["tally_pool"] is not None:
        c = copy.deepcopy(case)
        c["phantom_label"] = {"tally_pool": None, "pool": False}
        yield c
    # simpler votes
    for i, cv in enumerate(case["cvrs"]):
        for k, v in cv["votes"].items():
            if len(v) > 1:
                c = copy.deepcopy(case)
                first = next(iter(v))
                c["cvrs"][i]["votes"][k] = {first: v[first]}
                if not c["mvr"][cv["id"]].get("faults") and not c["mvr"][cv["id"]]["phantom"]:
                    c["mvr"][cv["id"]]["votes"][k] = {first: v[first]}
                yield c
    # default test parameters
    for k, cs in case["world"]["contests"].items():
        if cs.get("test_kwargs"):
            c = copy.deepcopy(case)
            c["world"]["contests"][k]["test_kwargs"] = {}
            yield c
    if case["numbering"]["mode"] == "sha256":
        c = copy.deepcopy(case)
        c["numbering"]["mode"] = "sched"
        yield c
