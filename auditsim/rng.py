"""Seed derivation and the one PRNG every run draws from.

run_seed = sha256(f"{VERIF_SEED}/{property}/{run index}")  ->  random.Random(run_seed)

Nothing else in the simulator is allowed to be a source of randomness.
"""
import hashlib
import random


def derive(seed: int, prop: str, i) -> int:
    h = hashlib.sha256(f"{seed}/{prop}/{i}".encode()).digest()
    return int.from_bytes(h[:8], "big")


class Rng(random.Random):
    """random.Random with a few helpers; all helpers draw in a fixed order."""

    def chance(self, p: float) -> bool:
        return self.random() < p

    def pick(self, seq):
        return seq[self.randrange(len(seq))]

    def wpick(self, pairs):
        """pairs: list of (value, weight)"""
        tot = sum(w for _, w in pairs)
        r = self.random() * tot
        acc = 0.0
        for v, w in pairs:
            acc += w
            if r < acc:
                return v
        return pairs[-1][0]

    def subset(self, seq, p: float):
        return [x for x in seq if self.random() < p]

    def nonempty_subset(self, seq, p: float):
        s = self.subset(seq, p)
        if not s:
            s = [self.pick(list(seq))]
        return s

    def dyadic(self, lo: float, hi: float, bits: int) -> float:
        """a multiple of 2**-bits in [lo, hi] (lo, hi themselves multiples)"""
        q = 2 ** bits
        a, b = int(round(lo * q)), int(round(hi * q))
        return self.randint(a, b) / q

    def perm(self, n: int):
        p = list(range(n))
        self.shuffle(p)
        return p
