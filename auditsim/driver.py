"""AuditWorld round driver: runs one whole audit (setup, rounds of draw -> retrieve -> transcribe ->
compute -> decide) on the real SHANGRLA code, under the case's fault plan, calling observers
(the property oracles) after every step."""
import copy
import math
import random

import numpy as np
import pandas as pd

from . import world as W


class SchedPrng:
    """scheduler-owned stand-in for cryptorandom.SHA256 behind the `prng` parameter"""

    def __init__(self, numbers):
        self.numbers = list(numbers)
        self.k = 0

    def nextRandom(self):
        n = self.numbers[self.k]
        self.k += 1
        return int(n).to_bytes(32, "big")


def phantom_ticket_stream(case):
    """tickets for records the voting system never produced; never runs dry (a mutated repository may
    create more phantoms than the generator planned for)"""
    import hashlib
    for t in case["phantom_tickets"]:
        yield t
    k = 0
    while True:
        yield int.from_bytes(hashlib.sha256(f"phantom-ticket/{case['numbering']['seed']}/{k}".encode()).digest()[:8], "big") >> 2
        k += 1


def manifest_df(batches, shortfall):
    """what prep_manifest produces: string columns, cumulative counts, phantom batch for the shortfall
    (built here because the manifest is the storage stub's artefact; prep_manifest itself is C17's subject)"""
    rows = [{"Tray #": "1", "Tabulator Number": b["tab"], "Batch Number": b["batch"], "Total Ballots": int(b["n"]),
             "VBMCart.Cart number": "1"} for b in batches]
    if shortfall > 0:
        rows.append({"Tray #": "None", "Tabulator Number": "phantom", "Batch Number": "1", "Total Ballots": int(shortfall),
                     "VBMCart.Cart number": "None"})
    df = pd.DataFrame(rows, columns=["Tray #", "Tabulator Number", "Batch Number", "Total Ballots", "VBMCart.Cart number"])
    df["cum_cards"] = df["Total Ballots"].cumsum()
    return df


class Abort(Exception):
    """the real code raised in a step the rest of the run depends on"""


class AuditRun:
    def __init__(self, ns, case, out, observers=()):
        self.ns = ns
        self.case = case
        self.out = out
        self.obs = list(observers)
        self.world = case["world"]
        self.polling = self.world["audit_type"] == W.POLLING
        self.use_style = bool(self.world["use_style"])
        self.idx_hist = []  # per round: selected indices (comparison) / sample numbers (polling)
        self.data_hist = []  # per round: {(cid, akey): (list of floats, u)}
        self.p_hist = []  # per round: {(cid, akey): p}
        self.proved_hist = []
        self.done_hist = []
        self.round_no = -1
        self.rebuilt = []

    # ------------------------------------------------------------------ helpers
    def call(self, step, fn, *a, fatal=True, **k):
        try:
            with W.quiet():
                return fn(*a, **k)
        except Exception as e:
            self.out.raised(step, e)
            self.out.ev("raised", [step, type(e).__name__])
            self.out.shape(f"raised:{step}:{type(e).__name__}")
            for o in self.obs:
                h = getattr(o, "on_exception", None)
                if h:
                    h(self, step, e)
            if fatal:
                raise Abort(step)
            return None

    def notify(self, hook, *a):
        for o in self.obs:
            h = getattr(o, hook, None)
            if h:
                h(self, *a)

    # ------------------------------------------------------------------ setup
    def build_contests(self):
        ns, world = self.ns, self.world
        contests = W.mk_contests(ns, world, with_assertions=False)
        return contests

    def finish_contests(self, contests, first):
        """everything between 'contest parameters known' and 'ready to sample'"""
        ns, world = self.ns, self.world
        if not self.polling:
            if first:
                self.orig_cvrs = list(self.cvr_list)
                self.notify("before_phantoms", contests)
                self.cvr_list, self.n_phantoms = self.call(
                    "make_phantoms", ns.CVR.make_phantoms, audit=self.audit, contests=contests, cvr_list=self.cvr_list,
                    prefix=self.case.get("phantom_prefix", "phantom-1-"), tally_pool=self.case["phantom_label"]["tally_pool"],
                    pool=self.case["phantom_label"]["pool"])
                self.notify("after_phantoms", contests)
            else:
                # rebuilt state: bounds as the first build left them (make_phantoms must not run twice)
                for cid, con in contests.items():
                    con.cards = self.cards_after_setup[cid]
                    con.cvrs = self.cvrs_after_setup[cid]
            early = bool(first and self.case.get("early_margins"))
            if early:
                # the worked notebook's order: assertions first, and a look at the reported margins *before* the
                # ONEAudit pooling step changes the CVRs in place; margins are set again afterwards
                self.call("make_assertions", W.make_assertions, ns, world, contests)
                self.call("set_all_margins_from_cvrs(early)", ns.Assertion.set_all_margins_from_cvrs, audit=self.audit,
                          contests=contests, cvr_list=self.cvr_list)
                self.out.probe("margins looked at before pooling")
            if world["audit_type"] == W.ONEAUDIT:
                if first:
                    self.pools = self.call("pool_contests", ns.CVR.pool_contests, self.cvr_list)
                    if self.case.get("pools_restricted"):
                        # the caller supplies the sets itself: only the contests under audit (cards may carry others)
                        self.pools = {k: {x for x in v if x in contests} for k, v in self.pools.items()}
                        self.out.probe("pool contest sets restricted to the contests under audit")
                    self.call("add_pool_contests", ns.CVR.add_pool_contests, self.cvr_list, self.pools)
                self.call("check_cards", ns.Contest.check_cards, contests, self.cvr_list, force=True)
                for con in contests.values():  # user-side glue: the bound is a count, keep it a plain int
                    con.cards = int(con.cards)
            if first:
                self.cards_after_setup = {cid: con.cards for cid, con in contests.items()}
                self.cvrs_after_setup = {cid: con.cvrs for cid, con in contests.items()}
        if not self.polling and first and self.case.get("early_margins"):
            for con in contests.values():  # user-side glue: the tests were built before the bounds grew
                for asn in con.assertions.values():
                    asn.test.N = int(con.cards)
        else:
            self.call("make_assertions", W.make_assertions, ns, world, contests)
        self.call("check_audit_parameters", self.audit.check_audit_parameters, contests)
        if not self.polling:
            if world["audit_type"] == W.ONEAUDIT:
                for cid, con in contests.items():
                    for key, asn in con.assertions.items():
                        self.call("set_tally_pool_means", asn.assorter.set_tally_pool_means, cvr_list=self.cvr_list,
                                  tally_pools=self.pools, use_style=self.use_style)
            if self.case.get("margins_via_tally"):
                # the other documented way to obtain margins: from the reported tallies (does not touch test.u)
                self.call("Contest.tally", ns.Contest.tally, contests, self.cvr_list,
                          enforce_rules=bool(self.case.get("tally_rules", False)))
                for con in contests.values():
                    self.call("find_margins_from_tally", con.find_margins_from_tally)
                self.out.probe("margins from tallies")
            elif self.case.get("margin_route") == "each":
                # the per-assertion route to the same margins
                for con in contests.values():
                    for asn in con.assertions.values():
                        self.call("set_margin_from_cvrs", asn.set_margin_from_cvrs, audit=self.audit, cvr_list=self.cvr_list)
                self.out.probe("margins set assertion by assertion")
            else:
                self.call("set_all_margins_from_cvrs", ns.Assertion.set_all_margins_from_cvrs, audit=self.audit,
                          contests=contests, cvr_list=self.cvr_list)
        return contests

    def setup(self):
        ns, case, out = self.ns, self.case, self.out
        self.audit = W.mk_audit(ns, self.world)
        self.cvr_list = W.mk_cvrs(ns, case["cvrs"])
        self.n_phantoms = 0
        out.shape(f"type={self.world['audit_type']} style={self.use_style} ncon={len(self.world['contests'])} "
                  f"kinds={sorted(set(c['choice_function'] for c in self.world['contests'].values()))}")
        contests = self.build_contests()
        self.contests = self.finish_contests(contests, first=True)
        n_lost = len(case["lost"])
        self.shortfall_manifest = self.world["max_cards"] - sum(b["n"] for b in case["batches"])
        self.manifest = manifest_df(case["batches"], self.shortfall_manifest)
        if n_lost:
            out.faults["F2 card has no CVR"] += n_lost
        if self.n_phantoms:
            out.probe("phantom CVRs created", 1)
        if any(b["n"] == 0 for b in case["batches"]):
            out.probe("manifest has empty batch")
        # ---- draw order
        if self.polling:
            total = int(self.manifest["Total Ballots"].sum())
            tick = []
            pt = phantom_ticket_stream(case)
            for c in case["cards"]:
                tick.append(case["tickets"][c["id"]])
            while len(tick) < total:
                tick.append(next(pt))
            self.order = sorted(range(1, total + 1), key=lambda s: tick[s - 1])  # 1-based sample numbers
            self.avail = {cid: total for cid in self.contests}
            if len(set(tick)) != len(tick):
                raise Abort("ticket collision")
        else:
            self.avail = {cid: sum(1 for c in self.cvr_list if c.has_contest(cid)) for cid in self.contests}
            reh = case.get("rehearsal")
            if reh:
                # a rehearsal draw with other sample numbers on the same objects, discarded before the audit proper
                # (assign_sample_nums "assigns (or overwrites)" the numbers); nothing of it may survive
                self.call("assign_sample_nums(rehearsal)", ns.CVR.assign_sample_nums, self.cvr_list, ns.SHA256(reh["seed"]))
                saved = {cid: (con.sample_size, getattr(con, "sample_threshold", None)) for cid, con in self.contests.items()}
                for cid, con in self.contests.items():
                    con.sample_size = max(min(self.avail[cid], 1), min(self.avail[cid], int(math.ceil(reh["frac"] * self.avail[cid]))))
                self.call("consistent_sampling(rehearsal)", ns.CVR.consistent_sampling, cvr_list=self.cvr_list,
                          contests=self.contests, fatal=False)
                for cid, con in self.contests.items():
                    con.sample_size, con.sample_threshold = saved[cid]
                for c in self.cvr_list:
                    c.sampled = False
                out.faults["F14 rehearsal draw discarded, cards renumbered"] += 1
                out.shape("rehearsal")
            self.assign_numbers()
            nums = [c.sample_num for c in self.cvr_list]
            if len(set(nums)) != len(nums):
                raise Abort("sample number collision")
            self.avail = {cid: sum(1 for c in self.cvr_list if c.has_contest(cid)) for cid in self.contests}
        out.ev("setup", {"n_cvrs": len(case["cvrs"]), "n_phantoms": int(self.n_phantoms),
                         "avail": dict(self.avail),
                         "margins": {f"{cid}/{k}": a.margin for cid, con in self.contests.items()
                                     for k, a in con.assertions.items()}})
        self.notify("after_setup")
        if case.get("initial_estimate") and not self.polling and self.use_style and not case.get("margins_via_tally"):
            # (the sample-size routines document that test.u must have been set; margins from tallies do not set it)
            # as the worked notebooks do before drawing anything: ask for the initial sample sizes
            self.call("Audit.find_sample_size(initial)", self.audit.find_sample_size, self.contests, cvrs=self.cvr_list, fatal=False)
            out.probe("initial sample size estimated before the first draw")

    def assign_numbers(self):
        """the draw order: the PRNG is created from the seed and every record gets its number, in list order"""
        ns, case = self.ns, self.case
        if case["numbering"]["mode"] == "sha256":
            self.call("assign_sample_nums", ns.CVR.assign_sample_nums, self.cvr_list, ns.SHA256(case["numbering"]["seed"]))
            return
        pt = phantom_ticket_stream(case)
        nums = [case["tickets"][c.id] if c.id in case["tickets"] else next(pt) for c in self.cvr_list]
        if case["numbering"]["mode"] == "rank":
            # small consecutive sample numbers 0..n-1 (as the library's own test assigns them)
            order = sorted(range(len(nums)), key=lambda i: nums[i])
            rk = [0] * len(nums)
            for pos, i in enumerate(order):
                rk[i] = pos
            nums = rk
        if case["numbering"]["mode"] == "near":
            # distinct 256-bit numbers that agree in their leading bits (they are equal as floats)
            order = sorted(range(len(nums)), key=lambda i: nums[i])
            base = (case["numbering"]["seed"] << 180) | (1 << 250)
            nn = [0] * len(nums)
            for pos, i in enumerate(order):
                nn[i] = base + 3 * pos
            nums = nn
        self.call("assign_sample_nums", ns.CVR.assign_sample_nums, self.cvr_list, SchedPrng(nums))

    # ------------------------------------------------------------------ rounds
    def sizes_for(self, rnd):
        s = {}
        for cid in self.contests:
            a = self.avail[cid]
            n = int(math.ceil(rnd["frac"][cid] * a))
            # samples of length 1 make shrink_trunc raise (outside the claimed properties)
            lo = min(a, 2) if self.world["contests"][cid].get("estim") == "shrink_trunc" else min(a, 1)
            s[cid] = max(lo, min(a, n))
        return s

    def mvr_for(self, cvr_or_id):
        rec = self.case["mvr"][cvr_or_id]
        if self.case.get("persist_mvrs"):
            # the auditors' record of a card is one object for the whole audit (not re-typed every round)
            cache = self.__dict__.setdefault("mvr_objs", {})
            if cvr_or_id not in cache:
                cache[cvr_or_id] = self._mvr_new(cvr_or_id, rec)
            return cache[cvr_or_id], rec.get("faults", [])
        return self._mvr_new(cvr_or_id, rec), rec.get("faults", [])

    def _mvr_new(self, cvr_or_id, rec):
        if self.case.get("mvr_via_from_dict"):
            # the manual records arrive as dicts (the documented route, CVR.from_dict); the 'card not found' flag is
            # whatever the auditors' tool wrote: a bool, a numpy bool, or 1
            flag = bool(rec["phantom"])
            k = sum(map(ord, str(cvr_or_id))) % 3
            d = {"id": cvr_or_id, "votes": copy.deepcopy(rec["votes"])}
            if flag:
                d["phantom"] = [True, np.True_, 1][k]
            elif k == 0:
                d["phantom"] = False
            m = self.ns.CVR.from_dict([d])[0]
        else:
            m = self.ns.CVR(id=cvr_or_id, votes=copy.deepcopy(rec["votes"]), phantom=bool(rec["phantom"]))
        return m

    def round(self, r, rnd):
        ns, out = self.ns, self.out
        self.round_no = r
        if rnd.get("rebuild"):
            out.faults["F9 audit state rebuilt between rounds"] += 1
            contests = self.build_contests()
            self.contests = self.finish_contests(contests, first=False)
            self.rebuilt.append(r)
            self.notify("after_rebuild", r)
        if rnd.get("retally") and self.case.get("margins_via_tally") and not self.polling:
            # the reported tallies are tabulated again (same CVRs): nothing may change
            self.call("Contest.tally", ns.Contest.tally, self.contests, self.cvr_list,
                      enforce_rules=bool(self.case.get("tally_rules", False)))
            for con in self.contests.values():
                self.call("find_margins_from_tally", con.find_margins_from_tally)
            out.probe("tallies tabulated again between rounds")
            out.shape("retally")
        if rnd.get("remargin") and not self.polling:
            # margins revised between rounds: now taken from the CVRs
            self.call("set_all_margins_from_cvrs", ns.Assertion.set_all_margins_from_cvrs, audit=self.audit,
                      contests=self.contests, cvr_list=self.cvr_list)
            out.probe("margins revised between rounds")
            out.shape("remargin")
            self.notify("after_remargin", r)
        if rnd.get("refresh") and not self.polling and not rnd.get("rebuild"):
            # housekeeping a user may repeat between rounds; none of it may change anything: parameters re-checked,
            # ONEAudit batch means and CVR-based margins computed again from the same CVRs
            self.call("check_audit_parameters", self.audit.check_audit_parameters, self.contests, fatal=False)
            if self.world["audit_type"] == W.ONEAUDIT:
                for con in self.contests.values():
                    for asn in con.assertions.values():
                        self.call("set_tally_pool_means", asn.assorter.set_tally_pool_means, cvr_list=self.cvr_list,
                                  tally_pools=self.pools, use_style=self.use_style)
            if not self.case.get("margins_via_tally"):
                self.call("set_all_margins_from_cvrs", ns.Assertion.set_all_margins_from_cvrs, audit=self.audit,
                          contests=self.contests, cvr_list=self.cvr_list)
            out.probe("pool means / margins recomputed between rounds")
            out.shape("refresh")
        if rnd.get("renumber") and not self.polling:
            # the round is redrawn literally from scratch: same seed, numbers assigned again (they must come out the same)
            before = [c.sample_num for c in self.cvr_list]
            self.assign_numbers()
            out.probe("sample numbers assigned again from the same seed before a later round")
            out.shape("renumber")
            if [c.sample_num for c in self.cvr_list] != before:
                self.notify("on_renumber_changed", r, before)
        if rnd.get("margin_nudge") and not self.polling and not self.case.get("margins_via_tally"):
            # a reported margin corrected in its seventh digit (a county-sized contest, one record amended): assigned directly
            for con in self.contests.values():
                for asn in con.assertions.values():
                    if asn.margin is not None and asn.margin > 1e-3:
                        asn.margin = float(asn.margin) * (1 - 2e-7)
            out.probe("margins corrected in the seventh digit between rounds")
            out.shape("nudge")
            self.notify("after_remargin", r)
        sizes = self.sizes_for(rnd)
        if (rnd.get("size_from_estimate") and r > 0 and not self.polling and self.use_style and self.data_hist
                and not rnd.get("rebuild")):
            # escalate the way the worked notebooks do: ask the library how many cards it now wants
            # (uses the shared state cvr.sampled / assertion.proved), never shrinking a sample
            res = self.call("Audit.find_sample_size", self.audit.find_sample_size, self.contests, cvrs=self.cvr_list,
                            mvr_sample=self.mvr_sample, cvr_sample=self.cvr_sample, fatal=False)
            if res is not None:
                out.probe("round size taken from the library's own estimate")
                for cid, con in self.contests.items():
                    est = int(con.sample_size) if con.sample_size is not None else 0
                    sizes[cid] = max(self.last_sizes.get(cid, 0), min(self.avail[cid], max(est, min(self.avail[cid], 2))))
        for cid in sizes:
            sizes[cid] = max(sizes[cid], getattr(self, "last_sizes", {}).get(cid, 0))
        self.last_sizes = dict(sizes)
        out.ev("round", [r, rnd["variant"], sizes])
        out.shape(f"r{r}:{rnd['variant']}{':rebuild' if rnd.get('rebuild') else ''}")
        out.units["rounds"] += 1
        for cid, con in self.contests.items():
            con.sample_size = sizes[cid]
        prev = self.idx_hist[-1] if self.idx_hist else None
        fired = set()
        if self.polling:
            n = max(sizes.values()) if sizes else 0
            sample = self.order[:n]
            cards, sample_order, mvr_ph = self.call("sample_from_manifest", ns.Dominion.sample_from_manifest,
                                                    self.manifest, sample)
            self.notify("after_draw", r, list(sample), prev, sizes)
            ph_ids = {m.id for m in mvr_ph}
            mvrs = []
            for card in cards:
                cid_ = card[5]
                if cid_ in ph_ids:
                    continue
                m, f = self.mvr_for(cid_)
                fired.update(f)
                mvrs.append(m)
            if mvr_ph:
                out.probe("phantom batch hit")
            mvr_sample = mvrs + list(mvr_ph)
            random.Random(rnd["shuffle"]).shuffle(mvr_sample)
            out.faults["F6 records returned in another order"] += 1
            self.call("prep_polling_sample", ns.CVR.prep_polling_sample, mvr_sample, sample_order)
            cvr_sample = None
            self.idx_hist.append(list(sample))
            out.units["draws"] += len(sample) - (len(prev) if prev else 0)
        else:
            arg = None
            if rnd["variant"] == "continue" and prev is not None:
                arg = list(prev)
                # "indices of cvrs already in the sample": the documentation asks for no particular order
                if rnd.get("continue_order") == "sorted":
                    arg.sort()
                elif rnd.get("continue_order") == "reversed":
                    arg.reverse()
            idx = self.call("consistent_sampling", ns.CVR.consistent_sampling, cvr_list=self.cvr_list,
                            contests=self.contests, sampled_cvr_indices=arg)
            try:
                idx = [int(i) for i in idx]
            except Exception as e:  # not a list of indices at all: nothing downstream can be run
                out.raised("consistent_sampling(result)", e)
                raise Abort("sampler returned no index list")
            out.ev("selected", idx)
            self.notify("after_draw", r, idx, prev, sizes)
            self.idx_hist.append(idx)
            out.units["draws"] += max(0, len(idx) - (len(prev) if prev else 0))
            if len(set(idx)) != len(idx):
                raise Abort("repeated card")  # lookup tables keyed by id cannot represent it
            cards, sample_order, cvr_sample, mvr_ph = self.call("sample_from_cvrs", ns.Dominion.sample_from_cvrs,
                                                                self.cvr_list, self.manifest, idx)
            self.notify("after_lookup", r, idx, cards, sample_order, cvr_sample, mvr_ph)
            mvrs = []
            for i in idx:
                c = self.cvr_list[i]
                if c.phantom:
                    continue
                m, f = self.mvr_for(c.id)
                fired.update(f)
                mvrs.append(m)
            if mvr_ph:
                out.probe("phantom CVR sampled")
            mvr_sample = mvrs + list(mvr_ph)
            random.Random(rnd["shuffle"]).shuffle(mvr_sample)
            cvr_sample = list(cvr_sample)
            random.Random(rnd["shuffle"] + 1).shuffle(cvr_sample)
            out.faults["F6 records returned in another order"] += 1
            self.call("prep_comparison_sample", ns.CVR.prep_comparison_sample, mvr_sample, cvr_sample, sample_order)
        names = {"F1": "F1 card cannot be found", "F3": "F3 transcription differs", "F4": "F4 manual record lacks contest",
                 "F5": "F5 manual record has extra contest", "enc": "mark encoding differs"}
        for f in sorted(fired):
            out.faults[names[f]] += 1  # (whether a run is non-trivial is each check's own rule, not the driver's)
        self.mvr_sample, self.cvr_sample = mvr_sample, cvr_sample
        # ---- what every assertion is about to be given
        data = {}
        for cid, con in self.contests.items():
            for key, asn in con.assertions.items():
                res = self.call("mvrs_to_data", asn.mvrs_to_data, mvr_sample, cvr_sample, fatal=False)
                if res is not None:
                    data[(cid, key)] = ([float(x) for x in res[0]], float(res[1]))
        self.data_hist.append(data)
        out.ev("data", {f"{k[0]}/{k[1]}": v for k, v in data.items()})
        self.notify("after_data", r, data)
        p_max = self.call("set_p_values", ns.Assertion.set_p_values, contests=self.contests, mvr_sample=mvr_sample,
                          cvr_sample=cvr_sample)
        done = self.call("summarize_status", self.audit.summarize_status, self.contests)
        try:
            ps = {(cid, key): float(asn.p_value) for cid, con in self.contests.items() for key, asn in con.assertions.items()}
            p_max = float(p_max)
        except Exception as e:
            out.raised("set_p_values(result)", e)
            self.notify("on_malformed", "p-values are not numbers")
            raise Abort("p-values are not numbers")
        self.p_hist.append(ps)
        self.proved_hist.append({(cid, key): bool(asn.proved) for cid, con in self.contests.items()
                                 for key, asn in con.assertions.items()})
        self.done_hist.append(bool(done))
        out.ev("p", {f"{k[0]}/{k[1]}": v for k, v in ps.items()})
        out.ev("done", bool(done))
        out.shape(f"done={bool(done)}")
        self.notify("after_pvalues", r, float(p_max), bool(done))
        if rnd.get("reestimate") and not self.polling and self.use_style and not self.case.get("margins_via_tally"):
            # the estimate is looked up again after the evaluation (as the notebooks do to plan the next round), and the
            # same sample is converted to data once more: nothing about the sample has changed
            if rnd["reestimate"] == "planning":  # the planning estimate (assumed error rates, no manual records)
                res = self.call("Audit.find_sample_size(planning, after evaluation)", self.audit.find_sample_size, self.contests,
                                cvrs=self.cvr_list, fatal=False)
            else:
                res = self.call("Audit.find_sample_size(after evaluation)", self.audit.find_sample_size, self.contests,
                                cvrs=self.cvr_list, mvr_sample=mvr_sample, cvr_sample=cvr_sample, fatal=False)
            if res is not None:
                again = {}
                for cid, con in self.contests.items():
                    for key, asn in con.assertions.items():
                        d2 = self.call("mvrs_to_data(again)", asn.mvrs_to_data, mvr_sample, cvr_sample, fatal=False)
                        if d2 is not None:
                            again[(cid, key)] = ([float(x) for x in d2[0]], float(d2[1]))
                out.probe("estimate looked up after the evaluation, sample converted again")
                out.ev("data-again", {f"{k[0]}/{k[1]}": v for k, v in again.items()})
                self.notify("after_reestimate", r, again)
                for cid, con in self.contests.items():  # the driver sets the sizes for the next draw itself
                    con.sample_size = self.last_sizes.get(cid, con.sample_size)

    def run(self):
        try:
            self.setup()
            for r, rnd in enumerate(self.case["rounds"]):
                self.round(r, rnd)
        except Abort as e:
            self.out.ev("abort", str(e))
            self.out.shape(f"abort:{e}")
            self.notify("on_abort", str(e))
        return self.out
