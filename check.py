#!/venv/bin/python
"""Launcher:  ./check.py <property> [--tier quick|thorough] [--replay file]

Re-execs itself with PYTHONHASHSEED=0 (unless a hash seed is already pinned, as the determinism
self-test does) so that set/dict iteration inside the library cannot perturb a run."""
import os
import sys

if os.environ.get("PYTHONHASHSEED") is None:
    env = dict(os.environ)
    env["PYTHONHASHSEED"] = "0"
    env["PYTHONDONTWRITEBYTECODE"] = "1"
    os.execve(sys.executable, [sys.executable, "-W", "ignore::SyntaxWarning"] + sys.argv, env)

sys.dont_write_bytecode = True
HERE = os.path.dirname(os.path.abspath(__file__))
if HERE not in sys.path:
    sys.path.insert(0, HERE)

import warnings  # noqa: E402

warnings.filterwarnings("ignore", category=SyntaxWarning)

from auditsim.runner import main  # noqa: E402

if __name__ == "__main__":
    sys.exit(main())
