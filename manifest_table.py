"""Claimed checks (source for MANIFEST.json, see tools_manifest.py)."""
CHECKS = {
    "C07": {
        "engine": "AuditWorld", "ref": "DESIGN.md 4 (C07)",
        "technique": "deterministic simulation: seeded worlds and draw orders through the real sampler and data pipeline, "
                     "faults F6/vote replacement, reference sort-filter-take model as oracle, shrinking + replay",
        "text": "seeded search over card lists, styles, draw orders (real SHA-256 PRNG, scheduler-owned prng object, direct "
                "assignment) and size vectors; every run is decided completely by a reference model, so a clean batch means "
                "no sampled world distinguishes the sampler from the model. Evidence, not proof.",
        "note": "trusts the reference model written from the statement, numpy, pandas and cryptorandom; sample numbers "
                "assumed distinct",
    },
}
# claimed in DESIGN.md but not built yet: listed as not applicable *for now* with the honest reason
NA_EXTRA = {
    "C01": "check under construction (DESIGN 4: DrawSim exact risk oracle)",
    "C03": "check under construction (DESIGN 4)",
    "C05": "check under construction (DESIGN 4)",
    "C06": "check under construction (DESIGN 4)",
    "C08": "check under construction (DESIGN 4)",
    "C09": "check under construction (DESIGN 4)",
    "C10": "check under construction (DESIGN 4)",
    "C16": "check under construction (DESIGN 4)",
    "C17": "check under construction (DESIGN 4)",
    "C18": "check under construction (DESIGN 4)",
    "C19": "check under construction (DESIGN 4)",
}
