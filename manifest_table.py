"""Claimed checks (source for MANIFEST.json, see tools_manifest.py)."""
CHECKS = {
    "C07": {
        "engine": "AuditWorld", "ref": "DESIGN.md 4 (C07)",
        "technique": "deterministic simulation: seeded worlds and draw orders through the real sampler and data pipeline, "
                     "faults F6/vote replacement, reference sort-filter-take model as oracle, shrinking + replay",
        "text": "seeded search over card lists, styles, draw orders (real SHA-256 PRNG, scheduler-owned prng object, direct "
                "assignment) and size vectors; every run is decided completely by a reference model, so a clean batch means "
                "no sampled world distinguishes the sampler from the model. Evidence, not proof.",
        "note": "trusts the reference model written from the statement, numpy, pandas and cryptorandom; sample numbers "
                "assumed distinct",
    },
}
CHECKS["C01"] = {
    "engine": "DrawSim", "ref": "DESIGN.md 4 (C01)",
    "technique": "deterministic simulation of the draw order: exhaustive schedule enumeration of small null urns (exact law of "
                 "the smallest reported p-value must be super-uniform), seeded schedules of larger urns with a 1e-12 binomial "
                 "bound; shrinking + replay",
    "text": "seeded search over (test, estimator/bet, parameters, null population or law); for each small case every distinct "
            "draw order / IID sequence is run through the real test, which turns the probabilistic claim into an exact one for "
            "that case; larger cases use R seeded orders. Exploration over configurations and populations; exact per small case.",
    "note": "dyadic grids keep sum == N*t exact; NaN counts as 'not <= alpha'; raising calls report nothing; sampled kind has "
            "false-alarm probability < 1e-8 per invocation; trusts numpy/scipy",
}
CHECKS["C05"] = {
    "engine": "DrawSim", "ref": "DESIGN.md 4 (C05)",
    "technique": "deterministic simulation with forked futures: same drawn prefix, two seeded futures and a truncation; "
                 "already-reported history entries and applied alternatives/bets must be bit-identical; shrinking + replay",
    "text": "seeded search over configurations (all tests, estimators, bets; finite and infinite N), histories, cut points and "
            "replacement futures, including histories that drive the null mean to 0, above u, below 0 and that fire the "
            "final-sample clamp. Evidence, not proof.",
    "note": "bit-exact comparison of two runs of the same code; raising calls skipped and counted",
}
CHECKS["C10"] = {
    "engine": "AuditWorld", "ref": "DESIGN.md 4 (C10)",
    "technique": "deterministic simulation of whole multi-round audits (redraw / continue / rebuilt state) with injected "
                 "auditor and voting-system faults; history oracle: supersets, prefix-extension of every assertion's data, "
                 "monotone risk, sticky confirmation; shrinking + replay",
    "text": "seeded search over elections, fault plans and round schedules run on the real pipeline (phantoms, pooling, "
            "sampler, lookup, ordering, data, p-values); the oracle is evaluated on the recorded history after every round. "
            "Evidence, not proof.",
    "note": "domain: style-based sampling, or style off with homogeneous styles; polling rounds use a stub permutation of "
            "manifest positions; NaN risk read as 1",
}
CHECKS["C03"] = {
    "engine": "AuditWorld", "ref": "DESIGN.md 4 (C03)",
    "technique": "deterministic simulation of a whole-population audit with injected faults (unfindable cards, lost CVRs -> "
                 "phantoms inside/outside pools, pooled batches, discrepancies, missing contests); oracle: the reduction "
                 "identity over the whole population, pool means against a reference assorter; shrinking + replay",
    "text": "seeded search over elections and fault plans; margins, pool means and overstatements come from the real code, "
            "the identity mean(B)-1/2 = (2 mean(A)-1)/(2(2u-v)) is evaluated over every card for every assertion. Evidence, not proof.",
    "note": "1e-9 relative tolerance; reference assorters written from the documentation are used only for pool means",
}
CHECKS["C06"] = {
    "engine": "AuditWorld", "ref": "DESIGN.md 4 (C06)",
    "technique": "deterministic simulation of multi-round audits of all three audit types with injected faults; runtime "
                 "monitor on every (data, u) pair handed to a test and on the u installed; shrinking + replay",
    "text": "seeded search over elections, fault plans (discrepancies of every size, phantoms, pooled CVRs, missing contests) "
            "and round schedules; every datum, the returned bound, the installed bound and the set of contributing cards "
            "are checked after every step. Evidence, not proof.",
    "note": "positive margins only (as quantified); margins obtained both from CVRs and from tallies; 1e-12 slack on ranges",
}
CHECKS["C08"] = {
    "engine": "AuditWorld", "ref": "DESIGN.md 4 (C08)",
    "technique": "deterministic simulation with fault injection (lost CVRs, unaccounted cards, unfindable cards, any pool "
                 "labelling): accounting invariants right after phantom creation, worst-case scoring on every (manual record, "
                 "CVR) pair met during the rounds, phantom manual records from both vendors' lookups; shrinking + replay",
    "text": "seeded search over card bounds / shortfalls per contest and per stratum, style on/off, labellings and rounds with "
            "unfindable cards; invariants evaluated at the step they concern. Evidence, not proof.",
    "note": "bounds >= CVR counts as quantified; reference assorters for the 'scored 1/2' clause; Hart lookup on a parallel id scheme",
}
CHECKS["C09"] = {
    "engine": "AuditWorld", "ref": "DESIGN.md 4 (C09)",
    "technique": "deterministic simulation of operation sequences on shared audit state (rounds, dry run + reset, reset "
                 "between rounds, repeated summaries, mis-configured contests) against an executable reference model "
                 "(each assertion's own test on its own data; conjunction over assertions and contests); shrinking + replay",
    "text": "seeded search over multi-contest audits with different limits/tests/social choice functions and operation "
            "sequences; recorded p-values, histories, maxima, flags, completion decision and reset state are compared with "
            "the reference model after every operation. Evidence, not proof.",
    "note": "reference p-values use a clone of the configured test object; NaN-valued contests exempt from the maximum comparison",
}
CHECKS["C16"] = {
    "engine": "AuditWorld", "ref": "DESIGN.md 4 (C16)",
    "technique": "deterministic simulation of the schedule each estimate assumes (pilot pattern repeated, overstatements at the "
                 "assumed positions, tallies interleaved) through the real audit pipeline: predicted completion time must equal "
                 "the observed one; seeded (seed, reps, quantile) on the numpy RandomState seam for the prefix clause; "
                 "shrinking + replay",
    "text": "seeded search over staged worlds, tests, risk limits, rates, tallies and simulation seeds; each estimate is compared "
            "with the first-crossing time of the real p-value history on the constructed schedule. Evidence, not proof.",
    "note": "overstatement positions follow int(1/rate); interleaved order is the library's own (counts checked separately); "
            "card-level staging for assorters with upper bound 1; one known finding (prefix crossing only by the final-sample clamp)",
}
CHECKS["C17"] = {
    "engine": "AuditWorld", "ref": "DESIGN.md 4 (C17, weak fit)",
    "technique": "deterministic simulation of physical storage and its manifest with injected faults (unaccounted cards -> "
                 "phantom batch, empty batches, oversized / undersized manifests, any retrieval order); oracle: the physical "
                 "card fetched is the card designated, exactly once; shrinking + replay",
    "text": "seeded search over storage layouts, bounds, vendor formats and retrieval orders covering the whole valid range of "
            "sample numbers; weak fit for this technique (the lookup is a pure function; claimed for the manifest-shortfall "
            "fault and as the seam to physical storage). Evidence, not proof.",
    "note": "unique batch labels; each number sampled once; Dominion 1-based, Hart 0-based",
}
CHECKS["C18"] = {
    "engine": "AuditWorld", "ref": "DESIGN.md 4 (C18, weak fit)",
    "technique": "deterministic simulation of the export channel with fragmented / repeated / interleaved records and RAIRE "
                 "files written to disk; oracle: ordered-map reference merge; shrinking + replay",
    "text": "seeded search over record streams with every combination of phantom / pool / tally-pool values and over RAIRE "
            "files with several contests; weak fit (tolerance to order / duplication of records in a stream). Evidence, not proof.",
    "note": "boolean flags, string-or-None tally pools, duplicate-free rankings",
}
CHECKS["C19"] = {
    "engine": "AuditWorld", "ref": "DESIGN.md 4 (C19, weak fit)",
    "technique": "deterministic simulation of the Dominion export channel under re-serialisation faults (key order, mark order, "
                 "duplicate marks, 'Modified' before 'Original', sessions split over files, obfuscated ids) read back under all "
                 "option settings; oracle: reference importer written from the statement; shrinking + replay",
    "text": "seeded search over voting-system records, serialisations (both layouts) and option settings; weak fit (tolerance to "
            "order / duplication in a stream the library reads). Evidence, not proof.",
    "note": "non-negative integer ranks; a contest at most once per session and data version; fewer than ten files per directory",
}
# claimed in DESIGN.md but not built yet: listed as not applicable *for now* with the honest reason
NA_EXTRA = {
}
