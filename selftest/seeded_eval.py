#!/venv/bin/python
"""Confirm a change written by an independent sub-agent and run the checks against it.

  selftest/seeded_eval.py <property> <k> [--src /tmp/seed_wt/<property>/_seeded] [--also C06,C10]

1. fresh scratch worktree of /repo HEAD (outside /repo and /verif); git apply patch<k>.diff
2. the 55 baseline tests must pass with the change
3. demo<k>.py must fail with the change and pass without it
4. quick check(s) against the changed tree (VERIF_REPO=<worktree>): exit code and signatures
5. keep it as /verif/seeded/<property>-<k>/ (patch.diff, demo.py, notes.md, meta.json); remove the worktree
"""
import argparse
import json
import os
import shutil
import subprocess
import sys
import time

VERIF = os.path.dirname(os.path.dirname(os.path.abspath(__file__)))


def sh(cmd, **kw):
    return subprocess.run(cmd, capture_output=True, text=True, **kw)


def main():
    ap = argparse.ArgumentParser()
    ap.add_argument("prop")
    ap.add_argument("k")
    ap.add_argument("--src")
    ap.add_argument("--also", default="")
    ap.add_argument("--tier", default="quick")
    ap.add_argument("--id", help="name under /verif/seeded (default <property>-<k>)")
    a = ap.parse_args()
    src = a.src or f"/tmp/seed_wt/{a.prop}/_seeded"
    patch = os.path.join(src, f"patch{a.k}.diff")
    demo = os.path.join(src, f"demo{a.k}.py")
    notes = os.path.join(src, f"notes{a.k}.md")
    wt = f"/tmp/seed_eval_{a.prop}_{a.k}_{os.getpid()}"
    sh(["git", "-C", "/repo", "worktree", "add", "-q", "--detach", wt, "HEAD"])
    meta = {"property": a.prop, "change": (a.id or f"{a.prop}-{a.k}"), "repo_head": sh(["git", "-C", "/repo", "rev-parse", "HEAD"]).stdout.strip()}
    try:
        env = dict(os.environ, PYTHONPATH=wt, PYTHONDONTWRITEBYTECODE="1")
        d0 = sh(["/venv/bin/python", "-W", "ignore", demo], cwd=wt, env=env, timeout=900)
        meta["demo_without_change_exit"] = d0.returncode
        r = sh(["git", "-C", wt, "apply", patch])
        if r.returncode != 0:
            meta["error"] = "patch does not apply: " + r.stderr[-300:]
            print(json.dumps(meta, indent=1))
            return 2
        meta["files_changed"] = sh(["git", "-C", wt, "diff", "--stat"]).stdout.strip().splitlines()[-1:]
        t = sh(["/venv/bin/python", "-m", "pytest", "-q", "-p", "no:cacheprovider", "tests"], cwd=wt, env=env, timeout=1800)
        meta["baseline_tests_with_change"] = (t.stdout.strip().splitlines() or [""])[-1]
        meta["baseline_tests_pass"] = t.returncode == 0
        d1 = sh(["/venv/bin/python", "-W", "ignore", demo], cwd=wt, env=env, timeout=900)
        meta["demo_with_change_exit"] = d1.returncode
        meta["demo_with_change_tail"] = (d1.stdout + d1.stderr)[-400:]
        meta["confirmed"] = bool(meta["baseline_tests_pass"] and d1.returncode != 0 and d0.returncode == 0)
        checks = {}
        for p in [a.prop] + [x for x in a.also.split(",") if x]:
            t0 = time.time()
            c = sh([os.path.join(VERIF, "check.py"), p, "--tier", a.tier, "--no-evidence", "--no-selftest"],
                   env=dict(os.environ, VERIF_REPO=wt), timeout=7200)
            sigs = sorted({ln.split()[1] for ln in c.stdout.splitlines() if ln.startswith("violation ")})
            first = [ln for ln in c.stdout.splitlines() if ln.startswith("violation ")][:2]
            checks[p] = {"exit": c.returncode, "signatures": sigs, "wall_s": round(time.time() - t0, 1),
                         "first_messages": [f[:400] for f in first]}
            if c.returncode == 2:
                checks[p]["harness_tail"] = c.stdout[-1500:]
        meta["checks"] = checks
        meta["caught_by"] = [p for p, v in checks.items() if v["exit"] == 1]
        meta["ran"] = (f"git apply patch.diff in a scratch worktree of /repo HEAD; pytest tests (55); demo with and without the "
                       f"change; VERIF_REPO=<worktree> ./check.py <id> --tier {a.tier}")
        dst = os.path.join(VERIF, "seeded", a.id or f"{a.prop}-{a.k}")
        os.makedirs(dst, exist_ok=True)
        shutil.copy(patch, os.path.join(dst, "patch.diff"))
        shutil.copy(demo, os.path.join(dst, "demo.py"))
        if os.path.exists(notes):
            shutil.copy(notes, os.path.join(dst, "notes.md"))
        old = {}
        mp = os.path.join(dst, "meta.json")
        if os.path.exists(mp):
            old = json.load(open(mp))
        for k_ in ("needs", "breaks"):
            if k_ in old:
                meta[k_] = old[k_]
        with open(mp, "w") as f:
            json.dump(meta, f, indent=1)
        print(json.dumps({k: meta[k] for k in ("property", "change", "confirmed", "baseline_tests_with_change",
                                                "demo_without_change_exit", "demo_with_change_exit", "caught_by")}, indent=None))
        for p, v in checks.items():
            print("  ", p, "exit", v["exit"], v["signatures"][:6])
        return 0
    finally:
        sh(["git", "-C", "/repo", "worktree", "remove", "--force", wt])
        shutil.rmtree(wt, ignore_errors=True)


if __name__ == "__main__":
    sys.exit(main())
