#!/bin/bash
# selftest/try_one.sh <seeded-name> <check> [extra check.py args]: run one check against one kept change (scratch worktree, removed afterwards)
name=$1; chk=$2; shift 2
wt=/tmp/try_one_${name}_$$
git -C /repo worktree add -q --detach $wt HEAD || exit 2
git -C $wt apply /verif/seeded/$name/patch.diff || { git -C /repo worktree remove --force $wt; exit 2; }
VERIF_REPO=$wt /verif/check.py $chk --tier quick --no-evidence --no-selftest "$@" | grep -E "^violation |^VIOLATION|^unreproduced|HARNESS|^OK|exit" | cut -c1-300 | head -${LINES_MAX:-8}
rc=${PIPESTATUS[0]}
git -C /repo worktree remove --force $wt
rm -rf $wt
echo "$name $chk exit=$rc"
