#!/venv/bin/python
"""Sensitivity mutants and property-preserving controls.

Each entry is an exact string replacement in a scratch copy of the repository (made outside /repo
and /verif, removed afterwards).  Mutants are expected to make the named check exit 1; controls
(expect=0) are refactors that preserve the property and must leave it at exit 0.

  selftest/mutants.py [--only C07] [--name substring] [--tests] [--tier quick] [--runs N]
"""
import argparse
import json
import os
import shutil
import subprocess
import sys
import tempfile
import time

HERE = os.path.dirname(os.path.abspath(__file__))
VERIF = os.path.dirname(HERE)
REPO = os.environ.get("VERIF_REPO_SRC", "/repo")


def load():
    out = []
    for fn in sorted(os.listdir(os.path.join(HERE, "mutants"))):
        if fn.endswith(".json"):
            with open(os.path.join(HERE, "mutants", fn)) as f:
                out.extend(json.load(f))
    return out


def make_copy(m):
    d = tempfile.mkdtemp(prefix="shangrla_mut_", dir=os.environ.get("VERIF_SCRATCH", "/tmp"))
    shutil.copytree(os.path.join(REPO, "shangrla"), os.path.join(d, "shangrla"),
                    ignore=shutil.ignore_patterns("__pycache__"))
    for ed in m["edits"]:
        p = os.path.join(d, ed["file"])
        s = open(p).read()
        if s.count(ed["old"]) != ed.get("count", 1):
            shutil.rmtree(d)
            raise SystemExit(f"mutant {m['name']}: pattern occurs {s.count(ed['old'])} times in {ed['file']}")
        s = s.replace(ed["old"], ed["new"])
        open(p, "w").write(s)
    return d


def run_tests(d):
    """the 55 baseline tests against the mutated copy"""
    shutil.copytree(os.path.join(REPO, "tests"), os.path.join(d, "tests"), ignore=shutil.ignore_patterns("__pycache__"))
    for extra in ("examples",):
        pass
    env = dict(os.environ, PYTHONPATH=d, PYTHONDONTWRITEBYTECODE="1")
    r = subprocess.run(["/venv/bin/python", "-m", "pytest", "-q", "-x", "-p", "no:cacheprovider", "tests"],
                       cwd=d, env=env, capture_output=True, text=True, timeout=900)
    tail = r.stdout.strip().splitlines()[-1] if r.stdout.strip() else r.stderr[-200:]
    return r.returncode == 0, tail


def main():
    ap = argparse.ArgumentParser()
    ap.add_argument("--only")
    ap.add_argument("--name")
    ap.add_argument("--tests", action="store_true")
    ap.add_argument("--tier", default="quick")
    ap.add_argument("--runs", type=int)
    a = ap.parse_args()
    bad = 0
    for m in load():
        if a.only and m["property"] != a.only:
            continue
        if a.name and a.name not in m["name"]:
            continue
        d = make_copy(m)
        try:
            t_ok, t_tail = (None, "")
            if a.tests:
                t_ok, t_tail = run_tests(d)
            env = dict(os.environ, VERIF_REPO=d)
            cmd = [os.path.join(VERIF, "check.py"), m["property"], "--tier", a.tier, "--no-evidence", "--no-selftest"]
            if a.runs:
                cmd += ["--runs", str(a.runs)]
            t0 = time.time()
            r = subprocess.run(cmd, env=env, capture_output=True, text=True, timeout=3600)
            exp = m.get("expect", 1)
            sigs = sorted({ln.split()[1] for ln in r.stdout.splitlines() if ln.startswith("violation ")})
            ok = (r.returncode == exp)
            bad += (not ok)
            print(f"{'ok  ' if ok else 'MISS'} {m['property']} {m['name']:<44} exit={r.returncode} expect={exp} "
                  f"{time.time() - t0:5.1f}s tests={'-' if t_ok is None else ('pass' if t_ok else 'FAIL: ' + t_tail)} {sigs}")
            if not ok and r.returncode == 2:
                print(r.stdout[-1500:], r.stderr[-1500:])
        finally:
            shutil.rmtree(d, ignore_errors=True)
    return 1 if bad else 0


if __name__ == "__main__":
    sys.exit(main())
