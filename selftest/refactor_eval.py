#!/venv/bin/python
"""False-alarm control with behaviour-preserving changes written by independent sub-agents.

  selftest/refactor_eval.py --src /tmp/refac_wt [--only formats] [--checks C17,C19]

For every <src>/<group>/_refactor/patch<k>.diff: scratch worktree of /repo HEAD, git apply, the 55 baseline tests must
pass, then every claimed check's quick tier must exit 0 on the changed tree.  Kept as /verif/refactors/<group>-<k>/
(patch.diff, notes.md, meta.json); the worktree is removed."""
import argparse
import json
import os
import shutil
import subprocess
import sys
import time

VERIF = os.path.dirname(os.path.dirname(os.path.abspath(__file__)))


def sh(cmd, **kw):
    return subprocess.run(cmd, capture_output=True, text=True, **kw)


def main():
    ap = argparse.ArgumentParser()
    ap.add_argument("--src", default="/tmp/refac_wt")
    ap.add_argument("--only")
    ap.add_argument("--checks")
    a = ap.parse_args()
    all_checks = [c["property_id"] for c in json.load(open(os.path.join(VERIF, "MANIFEST.json")))["checks"]]
    checks = a.checks.split(",") if a.checks else all_checks
    bad = []
    stored = os.path.join(VERIF, "refactors")
    groups = sorted(os.listdir(a.src)) if os.path.isdir(a.src) else []
    items = []
    for g in groups:
        d = os.path.join(a.src, g, "_refactor")
        if os.path.isdir(d):
            for k in range(1, 10):
                if os.path.exists(os.path.join(d, f"patch{k}.diff")):
                    items.append((g, k, os.path.join(d, f"patch{k}.diff"), os.path.join(d, f"notes{k}.md")))
    if not items and os.path.isdir(stored):  # re-run the kept ones
        for name in sorted(os.listdir(stored)):
            g, k = name.rsplit("-", 1)
            items.append((g, int(k), os.path.join(stored, name, "patch.diff"), os.path.join(stored, name, "notes.md")))
    for g, k, patch, notes in items:
        if a.only and g != a.only:
            continue
        name = f"{g}-{k}"
        wt = f"/tmp/refac_eval_{name}_{os.getpid()}"
        sh(["git", "-C", "/repo", "worktree", "add", "-q", "--detach", wt, "HEAD"])
        meta = {"change": name, "kind": "behaviour-preserving refactor written by an independent sub-agent",
                "repo_head": sh(["git", "-C", "/repo", "rev-parse", "HEAD"]).stdout.strip()}
        try:
            r = sh(["git", "-C", wt, "apply", patch])
            if r.returncode != 0:
                print(f"{name}: patch does not apply: {r.stderr[-200:]}")
                continue
            env = dict(os.environ, PYTHONPATH=wt, PYTHONDONTWRITEBYTECODE="1")
            t = sh(["/venv/bin/python", "-m", "pytest", "-q", "-p", "no:cacheprovider", "tests"], cwd=wt, env=env, timeout=1800)
            meta["baseline_tests"] = (t.stdout.strip().splitlines() or [""])[-1]
            res = {}
            for p in checks:
                t0 = time.time()
                c = sh([os.path.join(VERIF, "check.py"), p, "--tier", "quick", "--no-evidence", "--no-selftest"],
                       env=dict(os.environ, VERIF_REPO=wt), timeout=7200)
                sigs = sorted({ln.split()[1] for ln in c.stdout.splitlines() if ln.startswith("violation ")})
                res[p] = {"exit": c.returncode, "signatures": sigs, "wall_s": round(time.time() - t0, 1)}
                if c.returncode != 0:
                    res[p]["tail"] = c.stdout[-800:]
            meta["checks"] = res
            alarms = [p for p, v in res.items() if v["exit"] != 0]
            meta["false_alarms"] = alarms
            dst = os.path.join(stored, name)
            os.makedirs(dst, exist_ok=True)
            if os.path.abspath(patch) != os.path.abspath(os.path.join(dst, "patch.diff")):
                shutil.copy(patch, os.path.join(dst, "patch.diff"))
                if os.path.exists(notes):
                    shutil.copy(notes, os.path.join(dst, "notes.md"))
            json.dump(meta, open(os.path.join(dst, "meta.json"), "w"), indent=1)
            print(f"{name}: tests [{meta['baseline_tests']}] alarms={alarms}", flush=True)
            if alarms:
                bad.append(name)
                for p in alarms:
                    print("   ", p, res[p]["exit"], res[p]["signatures"][:4])
        finally:
            sh(["git", "-C", "/repo", "worktree", "remove", "--force", wt])
            shutil.rmtree(wt, ignore_errors=True)
    print("FALSE ALARMS ON:", bad)
    return 1 if bad else 0


if __name__ == "__main__":
    sys.exit(main())
