#!/venv/bin/python
"""Re-run the owning check against every kept seeded change (scratch worktree per change, removed afterwards)
and refresh meta.json.  selftest/seeded_all.py [--only C07] [--confirm]  (--confirm also re-runs tests and demo)"""
import argparse
import json
import os
import shutil
import subprocess
import sys
import time

VERIF = os.path.dirname(os.path.dirname(os.path.abspath(__file__)))


def sh(cmd, **kw):
    return subprocess.run(cmd, capture_output=True, text=True, **kw)


def main():
    ap = argparse.ArgumentParser()
    ap.add_argument("--only")
    ap.add_argument("--confirm", action="store_true")
    a = ap.parse_args()
    missed = []
    for name in sorted(os.listdir(os.path.join(VERIF, "seeded"))):
        d = os.path.join(VERIF, "seeded", name)
        mp = os.path.join(d, "meta.json")
        if not os.path.exists(mp):
            continue
        meta = json.load(open(mp))
        prop = meta["property"]
        if a.only and prop != a.only:
            continue
        wt = f"/tmp/seed_all_{name}_{os.getpid()}"
        sh(["git", "-C", "/repo", "worktree", "add", "-q", "--detach", wt, "HEAD"])
        try:
            r = sh(["git", "-C", wt, "apply", os.path.join(d, "patch.diff")])
            if r.returncode != 0:
                print(f"{name}: patch no longer applies: {r.stderr[-200:]}")
                missed.append(name)
                continue
            if a.confirm:
                env = dict(os.environ, PYTHONPATH=wt, PYTHONDONTWRITEBYTECODE="1")
                t = sh(["/venv/bin/python", "-m", "pytest", "-q", "-p", "no:cacheprovider", "tests"], cwd=wt, env=env, timeout=1800)
                dm = sh(["/venv/bin/python", "-W", "ignore", os.path.join(d, "demo.py")], cwd=wt, env=env, timeout=900)
                meta["baseline_tests_pass"] = t.returncode == 0
                meta["demo_with_change_exit"] = dm.returncode
            rcs = []
            for chk in [prop] + list(meta.get("also", [])):  # 'also': the check that owns the mutated function
                t0 = time.time()
                c = sh([os.path.join(VERIF, "check.py"), chk, "--tier", "quick", "--no-evidence", "--no-selftest"],
                       env=dict(os.environ, VERIF_REPO=wt), timeout=7200)
                sigs = sorted({ln.split()[1] for ln in c.stdout.splitlines() if ln.startswith("violation ")})
                meta.setdefault("checks", {})[chk] = {"exit": c.returncode, "signatures": sigs, "wall_s": round(time.time() - t0, 1)}
                rcs.append(c.returncode)
                if chk != prop:
                    print(f"{name}: (also) {chk} exit {c.returncode} {sigs[:2]}")
            meta["caught_by"] = [p for p, v in meta["checks"].items() if v["exit"] == 1]
            meta["verif_commit"] = sh(["git", "-C", VERIF, "rev-parse", "--short", "HEAD"]).stdout.strip()
            json.dump(meta, open(mp, "w"), indent=1)
            print(f"{name}: {prop} exit {rcs[0]} {meta['checks'][prop]['signatures'][:3]}")
            if 1 not in rcs:
                missed.append(name)
        finally:
            sh(["git", "-C", "/repo", "worktree", "remove", "--force", wt])
            shutil.rmtree(wt, ignore_errors=True)
    print("NOT CAUGHT:", missed)
    return 1 if missed else 0


if __name__ == "__main__":
    sys.exit(main())
