#!/venv/bin/python
"""Determinism self-test at scale: for every claimed check, the event-log digests of the first N runs
must be identical (a) sequentially in a fresh interpreter with PYTHONHASHSEED=0, (b) in a fresh
interpreter with PYTHONHASHSEED=1, (c) in a 16-worker batch and (d) in a 1-worker batch, and
(e) under a second VERIF_SEED the whole thing must hold again.

  selftest/determinism.py [--n 200] [--only C07]
"""
import argparse
import json
import os
import subprocess
import sys

HERE = os.path.dirname(os.path.abspath(__file__))
VERIF = os.path.dirname(HERE)
sys.path.insert(0, VERIF)


def seq(prop, n, hashseed, seed):
    env = dict(os.environ, PYTHONHASHSEED=str(hashseed), VERIF_SEED=str(seed))
    r = subprocess.run([os.path.join(VERIF, "check.py"), prop, "--range", "0", str(n)], env=env, capture_output=True,
                       text=True, timeout=3600)
    line = [ln for ln in r.stdout.splitlines() if ln.startswith("DIGESTS ")]
    if not line:
        raise SystemExit(f"{prop}: no digests\n{r.stdout}\n{r.stderr}")
    return json.loads(line[-1][8:])


def par(prop, n, workers, seed):
    code = ("import sys,json,importlib,warnings; warnings.filterwarnings('ignore'); sys.path.insert(0,%r);"
            "from auditsim import runner, repo; repo.load(); mod=importlib.import_module('checks.%s');"
            "res,_=runner.batch(mod,%d,'quick',%d,runs=%d,chunk=7);"
            "print('DIGESTS '+json.dumps([s.get('digest') for s in res]))") % (VERIF, prop, seed, workers, n)
    env = dict(os.environ, PYTHONHASHSEED="0", PYTHONDONTWRITEBYTECODE="1")
    r = subprocess.run(["/venv/bin/python", "-W", "ignore", "-c", code], env=env, capture_output=True, text=True, timeout=3600)
    line = [ln for ln in r.stdout.splitlines() if ln.startswith("DIGESTS ")]
    if not line:
        raise SystemExit(f"{prop}: no digests (batch)\n{r.stdout}\n{r.stderr}")
    return json.loads(line[-1][8:])


def main():
    ap = argparse.ArgumentParser()
    ap.add_argument("--n", type=int, default=200)
    ap.add_argument("--only")
    a = ap.parse_args()
    props = [c["property_id"] for c in json.load(open(os.path.join(VERIF, "MANIFEST.json")))["checks"]]
    bad = 0
    for p in props:
        if a.only and p != a.only:
            continue
        n = a.n if p not in ("C01",) else min(a.n, 120)
        for seed in (20261003, 7):
            A = seq(p, n, 0, seed)
            B = seq(p, n, 1, seed)
            C = par(p, n, 16, seed)
            D = par(p, n, 1, seed)
            mism = [i for i in range(n) if not (A[i] == B[i] == C[i] == D[i])]
            bad += bool(mism)
            print(f"{p} seed={seed} n={n} distinct={len(set(A))} mismatches={mism[:10]}")
    return 1 if bad else 0


if __name__ == "__main__":
    sys.exit(main())
