#!/bin/bash
# runs every claimed check's quick tier (rewrites every evidence file); exit status = worst
cd "$(dirname "$0")"
worst=0
for p in $(/venv/bin/python -c "import json;print(' '.join(c['property_id'] for c in json.load(open('MANIFEST.json'))['checks']))"); do
  ./check.py $p --tier ${1:-quick} | tail -n 3 | cut -c1-300
  rc=${PIPESTATUS[0]}
  [ $rc -gt $worst ] && worst=$rc
done
exit $worst
